---------------------------- MODULE TraceValComp ----------------------------
(* Trace validation for ValComp.tla: the real value-completion candidates of replayed (constraint, typed text, placement) cases. *)
EXTENDS ValComp, Json, IOUtils
Trace == ndJsonDeserialize(IOEnv.TRACE)
VARIABLES l, bad
tvars == <<l, bad>>
Ev == Trace[l]
V(what) == [l |-> l, prop |-> "C08", what |-> what, case |-> Ev.case, layout |-> Ev.layout]

VCViol(e) ==
  LET env == [level |-> e.place.level, self |-> e.place.self,
              edited |-> IF e.edited # "" THEN {e.edited} ELSE IF e.place.level = 1 THEN {"b.v", "self.v"} ELSE IF e.place.level = 2 THEN {"c.two.v", "self.v"} ELSE {}]
      cs == e.cands
      refs == {i \in DOMAIN cs : cs[i][2] = "reference"}
      fns == {i \in DOMAIN cs : cs[i][2] = "function"}
      kws == {cs[i][1] : i \in {i \in DOMAIN cs : cs[i][2] \in {"bool", "keyword"}}}
      badRef == {i \in refs : ~RefCandOK(cs[i][1], e.typed, env, e.conv)}
      badFn == {i \in fns : ~FnCandOK(cs[i][1], e.typed, e.fnconv)}
  IN
  IF e.status = "panic" THEN {V("value completion panicked")} ELSE
  (IF badRef # {} THEN LET i == CHOOSE i \in badRef : TRUE IN
     {V(IF cs[i][1] \in env.edited THEN "the attribute being edited is offered as a reference candidate"
        ELSE IF cs[i][1] \notin Visible(env) THEN (IF IsPrefixStr("self.", cs[i][1]) \/ IsPrefixStr("count.", cs[i][1]) \/ IsPrefixStr("each.", cs[i][1]) THEN "a block-local name is offered where it is not visible"
                                                       ELSE IF e.place.level = 3 /\ IsPrefixStr("d.two", cs[i][1]) THEN "the block the cursor is in (or a declaration inside it) is offered by its absolute address"
                                                       ELSE "reference candidate is not the address of a collected declaration")
        ELSE IF ~IsPrefixStr(e.typed, cs[i][1]) THEN "reference candidate does not start with the typed text"
        ELSE "reference candidate neither fits the expected type nor contains a nested declaration that does")} ELSE {})
  \cup (IF badFn # {} THEN LET i == CHOOSE i \in badFn : TRUE IN
          {V(IF cs[i][1] \notin DOMAIN e.fnconv THEN "function candidate is not a known function"
             ELSE IF ~e.fnconv[cs[i][1]] THEN "function candidate whose return type does not convert to the expected type"
             ELSE "function candidate does not start with the typed text")} ELSE {})
  \cup (IF Pinned(ConsAt(e.cons, e.form)) /\ kws # Admitted(ConsAt(e.cons, e.form), e.typed) THEN {V("keyword / boolean candidates are not exactly those the constraint admits")} ELSE {})
  \cup (IF \E i \in refs : cs[i][3] = "unresolved" THEN {V("accepting a fitting reference candidate yields a reference that go-to-definition does not resolve (" \o e.form \o ")")} ELSE {})

TInit == l = 1 /\ bad = {}
Step == /\ l <= Len(Trace) /\ l' = l + 1
        /\ bad' = bad \cup (IF Ev.ev = "ValComp" THEN VCViol(Ev) ELSE {})
Finish == /\ l = Len(Trace) + 1
          /\ JsonSerialize(IOEnv.VOUT, [consumed |-> l - 1, bad |-> bad])
          /\ l' = l + 1 /\ UNCHANGED bad
TNext == Step \/ Finish
TSpec == TInit /\ [][TNext]_tvars
TraceAccepted == TLCGet("stats").diameter = Len(Trace) + 2
=============================================================================
