------------------------------ MODULE Outline ------------------------------
(***************************************************************************)
(* C14: document and workspace symbols.                                    *)
(* Symbols(body, p) - one symbol per attribute / block in source order;    *)
(*   name = attribute name, or block type followed by the quoted labels;   *)
(*   children: nested items, the elements of list literals ("0", "1", ..), *)
(*   the literally-keyed items of object literals.  A symbol is            *)
(*   [name, ext, kids]; ext names the extent the range must equal:         *)
(*   "1.2" item 2 of block 1, "1.2#es.1" element 1 of its value,           *)
(*   "1.2#items.1" an object item (key start .. value end).                *)
(* Workspace(q, paths) - the top-level symbols of all files of all         *)
(*   readable paths whose name contains q.                                 *)
(***************************************************************************)
EXTENDS Integers, Sequences, FiniteSets, TLC

Sub(path, p) == IF path = "" THEN p ELSE path \o "." \o p
Quote(s) == "\"" \o s \o "\""

RECURSIVE LabelText(_, _)
LabelText(ls, i) == IF i > Len(ls) THEN "" ELSE " " \o Quote(ls[i]) \o LabelText(ls, i + 1)
BlockName(it) == it.type \o LabelText(it.labels, 1)

RECURSIVE ExprKids(_, _, _)
ExprKids(e, item, path) ==
  CASE e.k = "list" -> [i \in DOMAIN e.es |->
                          [name |-> ToString(i - 1), ext |-> item \o "#" \o Sub(path, "es." \o ToString(i)),
                           kids |-> ExprKids(e.es[i], item, Sub(path, "es." \o ToString(i)))]]
    [] e.k = "obj"  -> LET lit == SelectSeq([i \in DOMAIN e.items |-> i], LAMBDA i : e.items[i].key.k \in {"id", "str"}) IN
                       [j \in DOMAIN lit |->
                          [name |-> e.items[lit[j]].key.v, ext |-> item \o "#" \o Sub(path, "items." \o ToString(lit[j])),
                           kids |-> ExprKids(e.items[lit[j]].val, item, Sub(path, "items." \o ToString(lit[j]) \o ".val"))]]
    [] OTHER -> <<>>

RECURSIVE Symbols(_, _)
Symbols(body, p) ==
  [i \in DOMAIN body |->
     LET key == Sub(p, ToString(i)) it == body[i] IN
     IF it.k = "attr" THEN [name |-> it.name, ext |-> key, kids |-> ExprKids(it.val, key, "")]
     ELSE [name |-> BlockName(it), ext |-> key, kids |-> Symbols(it.body, key)]]

RECURSIVE Contains(_, _)
Contains(s, sub) == IF Len(sub) > Len(s) THEN FALSE ELSE SubSeq(s, 1, Len(sub)) = sub \/ Contains(SubSeq(s, 2, Len(s)), sub)

\* paths: Seq([key, doc, readable]); result: set of <<path key, name, ext>>
Workspace(q, paths) ==
  UNION { IF ~paths[i].readable THEN {}
          ELSE { <<paths[i].key, s.name, s.ext>> : s \in { Symbols(paths[i].doc, "")[j] : j \in DOMAIN paths[i].doc } } : i \in DOMAIN paths }
WorkspaceQ(q, paths) == { x \in Workspace(q, paths) : q = "" \/ Contains(x[2], q) }
=============================================================================
