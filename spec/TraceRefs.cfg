SPECIFICATION TSpec
POSTCONDITION TraceAccepted
CHECK_DEADLOCK FALSE
