----------------------------- MODULE MC_Outline -----------------------------
(* Universe of documents (single-file outline) and of workspaces (3 paths x unreadable subsets x queries). *)
EXTENDS Outline, Json
CONSTANTS MaxItems
VARIABLES case
vars == <<case>>

Lit(t, v) == [k |-> "lit", t |-> t, v |-> v]
List(es) == [k |-> "list", es |-> es]
Obj(items) == [k |-> "obj", items |-> items]
It(key, val) == [key |-> key, val |-> val]
IdK(v) == [k |-> "id", v |-> v]
StrK(v) == [k |-> "str", v |-> v]
RefE == [k |-> "ref", steps |-> <<[k |-> "root", v |-> "loc"], [k |-> "attr", v |-> "s"]>>]
At(n, v) == [k |-> "attr", name |-> n, val |-> v]
B(t, ls, body) == [k |-> "block", type |-> t, labels |-> ls, body |-> body]

Palette == { At("a", Lit("number", "1")), At("lst", List(<<Lit("string", "x"), List(<<Lit("number", "2")>>)>>)),
             At("obj", Obj(<<It(IdK("k"), Lit("string", "v")), It(StrK("q r"), List(<<Lit("number", "1")>>)), It(RefE, Lit("number", "2")), It(IdK("n"), Obj(<<It(IdK("m"), Lit("bool", "true"))>>))>>)),
             At("rf", RefE),
             B("r", <<"l1", "l2">>, <<At("x", Lit("number", "1")), B("inner", <<>>, <<At("y", List(<<Lit("number", "3")>>))>>)>>),
             B("k", <<>>, <<>>), B("r", <<"l1">>, <<At("z", RefE)>>) }
Docs == UNION { [1..n -> Palette] : n \in 0..MaxItems }
NoDupAttr(d) == \A i, j \in DOMAIN d : d[i].k = "attr" /\ d[j].k = "attr" /\ d[i].name = d[j].name => i = j

P2 == <<B("r", <<"other">>, <<>>), At("a", Lit("number", "5"))>>
P3 == <<At("zed", List(<<Lit("number", "0")>>)), B("k", <<"l1">>, <<>>)>>
\* (blanks are characters of a name like any other: a query is matched literally, with its leading / trailing blanks)
Queries == {"", "r", "\"l1\"", "r \"l", "zz", "a", "k \"l1\"", "r ", " r", " ", "  "}

Init == \/ \E d \in {d \in Docs : NoDupAttr(d)} : case = [mode |-> "file", doc |-> d]
        \/ \E d \in {d \in Docs : NoDupAttr(d) /\ Len(d) <= 2}, bad \in SUBSET {1, 2, 3}, q \in Queries :
              case = [mode |-> "workspace", query |-> q,
                      paths |-> <<[key |-> "w1", doc |-> d, readable |-> 1 \notin bad], [key |-> "w2", doc |-> P2, readable |-> 2 \notin bad],
                                  [key |-> "w3", doc |-> P3, readable |-> 3 \notin bad]>>]
Next == UNCHANGED vars
Spec == Init /\ [][Next]_vars

\* sanity on the model: one symbol per item, in order; an unreadable path hides only its own symbols
OnePerItem == case.mode = "file" => Len(Symbols(case.doc, "")) = Len(case.doc)
Isolation == case.mode = "workspace" =>
               \A i \in DOMAIN case.paths : case.paths[i].readable =>
                  \A j \in DOMAIN case.paths[i].doc :
                     LET s == Symbols(case.paths[i].doc, "")[j] IN
                     (case.query = "" \/ Contains(s.name, case.query)) => <<case.paths[i].key, s.name, s.ext>> \in WorkspaceQ(case.query, case.paths)
Emit == PrintT(ToJson(case))
=============================================================================
