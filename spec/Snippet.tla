------------------------------ MODULE Snippet ------------------------------
(***************************************************************************)
(* C06, snippet form of completion items: tab-stop numbering.              *)
(*                                                                         *)
(* P: StopsOK(stops) - the non-zero stops of a snippet are pairwise        *)
(*    distinct and form a contiguous run; a ${0} final stop comes last.    *)
(* M: one operator per producer (schema/constraint_*.go                    *)
(*    EmptyCompletionData, decoder/label_candidates.go                     *)
(*    requiredFieldsSnippet / generateRequiredFieldsSnippet).              *)
(*                                                                         *)
(* A snippet is abstracted to [txt : is the text non-empty, stops : Seq,   *)
(* next : the NextPlaceholder handed on].                                  *)
(* Constraints: [k |-> "kw"|"ref"|"typeDecl"|"litval"]                     *)
(*   [k |-> "lit"|"any", t |-> Type]  [k |-> "list"|"set"|"map", e |-> C]  *)
(*   [k |-> "tuple", es |-> Seq(C)]  [k |-> "oneOf", cs |-> Seq(C)]        *)
(*   [k |-> "obj", as |-> Seq([req |-> BOOLEAN, c |-> C])] (name order)    *)
(* Types: [k |-> "string"|"number"|"bool"|"dynamic"]                       *)
(*   [k |-> "list"|"set"|"map", e |-> T] [k |-> "tuple", es |-> Seq(T)]    *)
(*   [k |-> "object", as |-> Seq([opt |-> BOOLEAN, t |-> T])]              *)
(***************************************************************************)
EXTENDS Integers, Sequences, FiniteSets

Data(txt, stops, next) == [txt |-> txt, stops |-> stops, next |-> next]
Empty(next) == Data(FALSE, <<>>, next)
Ty(n) == [k |-> n]
Prim == {Ty("string"), Ty("number"), Ty("bool")}
Nil == [k |-> "nil"]

RECURSIVE ECD(_, _, _), LitECD(_, _, _), TupleECD(_, _, _, _, _), ObjAttrs(_, _, _, _, _)

LitAsCons(t) == [k |-> "lit", t |-> t]

\* schema.LiteralType.EmptyCompletionData
LitECD(t, np, prefill) ==
  IF t \in Prim THEN Data(TRUE, <<np>>, np + 1)
  ELSE IF t = Ty("dynamic") THEN Empty(np)
  ELSE IF t.k \in {"list", "set", "map"} THEN ECD([k |-> t.k, e |-> LitAsCons(t.e)], np, prefill)
  ELSE IF t.k = "tuple" THEN ECD([k |-> "tuple", es |-> [i \in DOMAIN t.es |-> LitAsCons(t.es[i])]], np, prefill)
  ELSE ECD([k |-> "obj", as |-> [i \in DOMAIN t.as |-> [req |-> ~t.as[i].opt, c |-> LitAsCons(t.as[i].t)]]], np, prefill)

\* schema.Tuple.EmptyCompletionData loop;  ctx = <<np, prefill>>
TupleECD(es, i, last, acc, ctx) ==
  IF i > Len(es) THEN Data(TRUE, acc, last)
  ELSE LET d == ECD(es[i], last, ctx[2]) IN
       IF ~d.txt THEN Data(TRUE, <<ctx[1]>>, ctx[1] + 1)
       ELSE TupleECD(es, i + 1, d.next, acc \o d.stops, ctx)

\* schema.Object.attributesCompletionData loop; returns <<ok, anyRequired, stops, next>>
ObjAttrs(as, i, next, acc, prefill) ==
  IF i > Len(as) THEN <<TRUE, acc[1], acc[2], next>>
  ELSE LET d == ECD(as[i].c, next, prefill) IN
       IF ~d.txt THEN <<FALSE, FALSE, <<>>, next>>
       ELSE IF as[i].req THEN ObjAttrs(as, i + 1, d.next, <<TRUE, acc[2] \o d.stops>>, prefill)
       ELSE ObjAttrs(as, i + 1, next, acc, prefill)

ECD(c, np, prefill) ==
  CASE c.k = "kw"       -> Empty(np)
    [] c.k = "typeDecl" -> Empty(np)
    [] c.k = "ref"      -> Empty(0)
    [] c.k = "litval"   -> Data(TRUE, <<>>, np)
    [] c.k = "lit"      -> LitECD(c.t, np, prefill)
    [] c.k = "any"      -> IF prefill THEN LitECD(c.t, np, prefill) ELSE Empty(0)
    [] c.k \in {"list", "set"} ->
         LET d == ECD(c.e, np, prefill) IN
         IF ~d.txt THEN Data(TRUE, <<np>>, np + 1) ELSE Data(TRUE, d.stops, d.next)
    [] c.k = "map" ->
         LET d == ECD(c.e, np + 1, prefill) IN
         IF ~d.txt THEN Data(TRUE, <<np>>, np + 1) ELSE Data(TRUE, <<np>> \o d.stops, d.next)
    [] c.k = "tuple" ->
         IF Len(c.es) = 0 THEN Data(TRUE, <<np>>, np + 1) ELSE TupleECD(c.es, 1, np, <<>>, <<np, prefill>>)
    [] c.k = "obj" ->
         LET emptyObj == Data(TRUE, <<np>>, np + 1) IN
         IF ~prefill THEN emptyObj
         ELSE LET r == ObjAttrs(c.as, 1, np, <<FALSE, <<>>>>, prefill) IN
              IF r[1] /\ r[2] THEN Data(TRUE, r[3], r[4]) ELSE emptyObj
    [] c.k = "oneOf" -> IF Len(c.cs) = 0 THEN Empty(np) ELSE ECD(c.cs[1], np, prefill)

-----------------------------------------------------------------------------
\* decoder.requiredFieldsSnippet (as repaired: the placeholder is threaded through attributes and nested blocks)
\* body: [attrs |-> Seq([req, c]), blocks |-> Seq([min, labels : Nat, body : Body | Nil])]  or Nil
RECURSIVE ReqFields(_, _), ReqAttrs(_, _, _, _), ReqBlocks(_, _, _, _)

\* returns <<stops, placeholder>>
ReqAttrs(as, i, ph, acc) ==
  IF i > Len(as) THEN <<acc, ph>>
  ELSE IF ~as[i].req THEN ReqAttrs(as, i + 1, ph, acc)
  ELSE LET d == ECD(as[i].c, ph, TRUE) IN
       ReqAttrs(as, i + 1, IF d.txt /\ d.next > ph THEN d.next ELSE ph, acc \o d.stops)

ReqBlocks(bs, i, ph, acc) ==
  IF i > Len(bs) THEN <<acc, ph>>
  ELSE IF bs[i].min = 0 THEN ReqBlocks(bs, i + 1, ph, acc)
  ELSE LET lbl == [j \in 1..bs[i].labels |-> ph + j - 1]
           inner == ReqFields(bs[i].body, ph + bs[i].labels)
       IN  ReqBlocks(bs, i + 1, inner[2], acc \o lbl \o inner[1])

ReqFields(body, ph) ==
  IF body = Nil THEN <<<<>>, ph>>
  ELSE LET a == ReqAttrs(body.attrs, 1, ph, <<>>) IN ReqBlocks(body.blocks, 1, a[2], a[1])

\* decoder.generateRequiredFieldsSnippet(label, body, labelSchemas, 2, 0): extra labels, fields, final ${0}
LabelSnippet(nLabels, body) ==
  LET extra == IF nLabels > 0 THEN [j \in 1..(nLabels - 1) |-> 1 + j] ELSE <<>>
  IN  extra \o ReqFields(body, 2 + Len(extra))[1] \o <<0>>

\* decoder.snippetForBlock with prefilling, for a block whose first dk labels are dependency keys (as repaired: the
\* last key label is the final stop, the ones before are visited in order; labels that are no keys are written as text)
BlockSnippet(nLabels, dk) == [j \in 1..(dk - 1) |-> j] \o <<0>>
\* the defect: every key label was the final stop
OldBlockSnippet(nLabels, dk) == [j \in 1..dk |-> 0]

-----------------------------------------------------------------------------
\* P
NonZero(s) == SelectSeq(s, LAMBDA x : x # 0)
SeqRange(s) == {s[i] : i \in DOMAIN s}
StopsOK(s) ==
  LET nz == NonZero(s) IN
  /\ Cardinality(SeqRange(nz)) = Len(nz)
  /\ \A a, b \in SeqRange(nz) : \A x \in a..b : x \in SeqRange(nz)
  /\ \A i \in DOMAIN s : s[i] = 0 => i = Len(s)
=============================================================================
