------------------------------- MODULE MC_Copy -------------------------------
(* All heaps of up to N nodes (identities 1..N, tree shapes are irrelevant to the    *)
(* identity argument): a deep copy is disjoint and mutations of either side are not *)
(* seen by the other; with the deviation ShallowAt the frame property breaks.       *)
EXTENDS CopyHeap, TLC
CONSTANTS N, Shallow    \* Shallow = 0: deep copy; i > 0: node i is shared
VARIABLES oids, cids, content, mutated, baseO, baseC
vars == <<oids, cids, content, mutated, baseO, baseC>>

Init == /\ \E n \in 1..N : oids = [i \in 1..n |-> i]
        /\ cids = (IF Shallow > 0 /\ Shallow <= Len(oids) THEN ShallowAt(oids, Shallow) ELSE CopyIds(oids))
        /\ content = [x \in 1..(2 * N + 1) |-> 0]
        /\ mutated = "none"
        /\ baseO = <<>> /\ baseC = <<>>

MutateCopy == /\ mutated = "none"
              /\ \E j \in DOMAIN cids : content' = [content EXCEPT ![cids[j]] = 1]
              /\ mutated' = "copy" /\ baseO' = See(oids, content) /\ baseC' = See(cids, content)
              /\ UNCHANGED <<oids, cids>>
MutateOrig == /\ mutated = "none"
              /\ \E j \in DOMAIN oids : content' = [content EXCEPT ![oids[j]] = 1]
              /\ mutated' = "orig" /\ baseO' = See(oids, content) /\ baseC' = See(cids, content)
              /\ UNCHANGED <<oids, cids>>
Next == MutateCopy \/ MutateOrig
Spec == Init /\ [][Next]_vars

DisjointInv == Disjoint(oids, cids)
FrameInv == /\ mutated = "copy" => See(oids, content) = baseO
            /\ mutated = "orig" => See(cids, content) = baseC
=============================================================================
