-------------------------------- MODULE Sched --------------------------------
(* The schedule projection of Concurrent.tla: every interleaving of the first K gate steps (merge.enter,        *)
(* merge.copied, merge.exit, ...) of two request goroutines.  Each complete schedule is printed and forced on    *)
(* the real code with the blocking scheduler gates.                                                               *)
EXTENDS Naturals, Sequences, Json, TLC
CONSTANTS K
VARIABLES pos, hist
vars == <<pos, hist>>
Init == pos = [w \in {1, 2} |-> 0] /\ hist = <<>>
Step(w) == pos[w] < K /\ pos' = [pos EXCEPT ![w] = @ + 1] /\ hist' = Append(hist, w)
Next == Step(1) \/ Step(2)
Spec == Init /\ [][Next]_vars
Done == pos[1] = K /\ pos[2] = K
Emit == Done => PrintT(ToJson([sched |-> hist]))
=============================================================================
