SPECIFICATION Spec
CONSTANTS
  Mode = "block"
  EmitEvery = 12
INVARIANTS AcceptedShape
CONSTRAINT Emit
CHECK_DEADLOCK FALSE
