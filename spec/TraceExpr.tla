------------------------------ MODULE TraceExpr ------------------------------
(* Trace validation for ExprRules: what the real decoder collected / answered for a replayed (constraint, expression) case. *)
EXTENDS ExprRules, Json, IOUtils
Trace == ndJsonDeserialize(IOEnv.TRACE)
VARIABLES l, bad
tvars == <<l, bad>>
Ev == Trace[l]
Has(f, x) == x \in DOMAIN f
V(prop, what) == [l |-> l, prop |-> prop, what |-> what, case |-> Ev.case, layout |-> Ev.layout]

AddrT(steps) == [i \in DOMAIN steps |-> <<steps[i].k, steps[i].v>>]
SelfOn(e) == e.flags[e.level + 1]
Under(paths, p) == \E q \in paths : IsPrefixStr(q, p)

\* ---- C10 ----------------------------------------------------------------------------------
OriginViol(e) ==
  LET leaves == OriginsP(e.cons, e.expr, "", SelfOn(e))
      blind == Blind(e.cons, e.expr, "")
      exp == { <<"a.tf", e.ext[x.path][1], e.ext[x.path][2], AddrT(x.addr)>> : x \in leaves }
             \cup { <<"a.tf", e.fixed.u[1], e.fixed.u[2], << <<"root", "loc">>, <<"attr", "n">> >> >>,
                    <<"b.tf", e.fixed.w[1], e.fixed.w[2], << <<"root", "loc">>, <<"attr", "s">> >> >> }
      obs == { <<o[1], o[2], o[3], o[4]>> : o \in {e.origins[i] : i \in DOMAIN e.origins} }
      expBlind == { <<"a.tf", e.ext[x.path][1], e.ext[x.path][2], AddrT(x.addr)>> : x \in {y \in leaves : Under(blind, y.path)} }
      missing == exp \ obs
      extra == obs \ exp
      os == e.origins
  IN
  IF e.ostatus # "ok" THEN {V("C10", "CollectReferenceOrigins failed: " \o e.ostatus)} ELSE
  (IF missing \ expBlind # {} THEN
      LET m == CHOOSE m \in missing \ expBlind : TRUE IN
      {V("C10", IF \E x \in obs : x[2] = m[2] /\ x[3] = m[3] THEN "origin with an address other than the text denotes"
                ELSE IF \E x \in obs : x[4] = m[4] /\ x[1] = m[1] /\ (x[2] # m[2] \/ x[3] # m[3]) /\ x \notin exp THEN "origin whose range is not exactly the reference text"
                ELSE "no origin for a reference written where the constraint admits one (" \o e.cons.k \o ")")}
   ELSE {})
  \cup (IF missing \cap expBlind # {} THEN {V("C10", "no origin for a reference inside a tuple/object literal under an any-expression constraint of tuple/object type")} ELSE {})
  \cup (IF extra # {} /\ missing \ expBlind = {} THEN {V("C10", "origin for text that is not an admitted reference (" \o e.cons.k \o ")")} ELSE {})
  \cup (IF \E i, j \in DOMAIN os : i < j /\ os[i][1] = os[j][1] /\ os[i][2] = os[j][2] /\ os[i][3] = os[j][3]
        THEN {V("C10", "two origins for one reference")} ELSE {})
  \cup (IF \E i, j \in DOMAIN os : i < j /\ ~((os[i][1] = os[j][1] /\ os[i][2] <= os[j][2]) \/ (os[i][1] = "a.tf" /\ os[j][1] = "b.tf"))
        THEN {V("C10", "origins not ordered by file and position")} ELSE {})

TInit == l = 1 /\ bad = {}
Step == /\ l <= Len(Trace) /\ l' = l + 1
        /\ bad' = bad \cup (IF Ev.ev = "Expr" THEN OriginViol(Ev) ELSE {})
Finish == /\ l = Len(Trace) + 1
          /\ JsonSerialize(IOEnv.VOUT, [consumed |-> l - 1, bad |-> bad])
          /\ l' = l + 1 /\ UNCHANGED bad
TNext == Step \/ Finish
TSpec == TInit /\ [][TNext]_tvars
TraceAccepted == TLCGet("stats").diameter = Len(Trace) + 2
=============================================================================
