------------------------------ MODULE TraceExpr ------------------------------
(* Trace validation for ExprRules: what the real decoder collected / answered for a replayed (constraint, expression) case. *)
EXTENDS ExprRules, Json, IOUtils
Trace == ndJsonDeserialize(IOEnv.TRACE)
VARIABLES l, bad
tvars == <<l, bad>>
Ev == Trace[l]
Has(f, x) == x \in DOMAIN f
V(prop, what) == [l |-> l, prop |-> prop, what |-> what, case |-> Ev.case, layout |-> Ev.layout]

AddrT(steps) == [i \in DOMAIN steps |-> <<steps[i].k, steps[i].v>>]
SelfOn(e) == [on |-> e.flags[e.level + 1], level |-> e.level]
Under(paths, p) == \E q \in paths : IsPrefixStr(q, p)

\* ---- C10 ----------------------------------------------------------------------------------
OriginViol(e) ==
  LET leaves == OriginsP(e.cons, e.expr, "", SelfOn(e))
      blind == Blind(e.cons, e.expr, "")
      exp == { <<"a.tf", e.ext[x.path][1], e.ext[x.path][2], AddrT(x.addr)>> : x \in leaves }
             \cup { <<"a.tf", e.fixed.u[1], e.fixed.u[2], << <<"root", "loc">>, <<"attr", "n">> >> >>,
                    <<"b.tf", e.fixed.w[1], e.fixed.w[2], << <<"root", "loc">>, <<"attr", "s">> >> >> }
      oopen == OpenKeyOrigin(e.cons, e.expr, "")
      obs == { <<o[1], o[2], o[3], o[4]>> : o \in {e.origins[i] : i \in {j \in DOMAIN e.origins :
                                                     ~(e.origins[j][1] = "a.tf" /\ \E p \in oopen : e.ext[p][1] <= e.origins[j][2] /\ e.origins[j][3] <= e.ext[p][2])}} }
      expBlind == { <<"a.tf", e.ext[x.path][1], e.ext[x.path][2], AddrT(x.addr)>> : x \in {y \in leaves : Under(blind, y.path)} }
      missing == exp \ obs
      extra == obs \ exp
      os == e.origins
  IN
  IF e.ostatus # "ok" THEN {V("C10", "CollectReferenceOrigins failed: " \o e.ostatus)} ELSE
  (IF missing \ expBlind # {} THEN
      LET m == CHOOSE m \in missing \ expBlind : TRUE IN
      {V("C10", IF \E x \in obs : x[2] = m[2] /\ x[3] = m[3] THEN "origin with an address other than the text denotes"
                ELSE IF \E x \in obs : x[4] = m[4] /\ x[1] = m[1] /\ (x[2] # m[2] \/ x[3] # m[3]) /\ x \notin exp THEN "origin whose range is not exactly the reference text"
                ELSE "no origin for a reference written where the constraint admits one (" \o e.cons.k \o ")")}
   ELSE {})
  \cup (IF missing \cap expBlind # {} THEN {V("C10", "no origin for a reference inside a tuple/object literal under an any-expression constraint of tuple/object type")} ELSE {})
  \cup (IF extra # {} /\ missing \ expBlind = {} THEN {V("C10", "origin for text that is not an admitted reference (" \o e.cons.k \o ")")} ELSE {})
  \cup (IF \E i, j \in DOMAIN os : i < j /\ os[i][1] = os[j][1] /\ os[i][2] = os[j][2] /\ os[i][3] = os[j][3]
        THEN {V("C10", "two origins for one reference")} ELSE {})
  \cup (IF \E i, j \in DOMAIN os : i < j /\ ~((os[i][1] = os[j][1] /\ os[i][2] <= os[j][2]) \/ (os[i][1] = "a.tf" /\ os[j][1] = "b.tf"))
        THEN {V("C10", "origins not ordered by file and position")} ELSE {})

\* ---- C13 (value tokens) ----------------------------------------------------------------------
Ext(e, tk) == IF tk[2] = "full" THEN e.ext[tk[3]] ELSE IF tk[2] = "name" THEN e.nameext[tk[3]] ELSE e.stepext[tk[3]][tk[4]]
InOpen(e, open, s1, e1) == \E p \in open : e.ext[p][1] <= s1 /\ e1 <= e.ext[p][2]

TokenViol(e) ==
  LET open == OpenTok(e.cons, e.expr, "") \cup OpenIn(e.expr, "") \cup OpenKeyItems(e.cons, e.expr, "")
      expAll == { <<tk[1], Ext(e, tk)[1], Ext(e, tk)[2]>> : tk \in TokensP(e.cons, e.expr, "", SelfOn(e)) }
      exp == { x \in expAll : ~InOpen(e, open, x[2], x[3]) }
      obs == { x \in {<<e.tokens[i][1], e.tokens[i][2], e.tokens[i][3]>> : i \in DOMAIN e.tokens} : ~InOpen(e, open, x[2], x[3]) }
      missing == exp \ obs
      extra == obs \ exp
  IN
  IF e.tkstatus # "ok" THEN {V("C13", "SemanticTokensInFile failed")} ELSE
  (IF missing # {} THEN LET m == CHOOSE m \in missing : TRUE IN
      {V("C13", IF \E x \in obs : x[2] = m[2] /\ x[3] = m[3] THEN "value element marked with the wrong token type (expected " \o m[1] \o ")"
                ELSE IF \E x \in obs : x[1] = m[1] /\ (x[2] = m[2] \/ x[3] = m[3]) THEN "token range differs from the element's extent (" \o m[1] \o ")"
                ELSE "no token for a schema-known value element (" \o m[1] \o " under " \o e.cons.k \o ")")} ELSE {})
  \cup (IF extra # {} /\ missing = {} THEN {V("C13", "token for something the schema does not know (" \o (CHOOSE x \in extra : TRUE)[1] \o " under " \o e.cons.k \o ")")} ELSE {})

\* ---- C12 (hover inside a value) and C11 (resolution of the written references) -------------------------------
Parent(p) == LET idx == {i \in 1..Len(p) : SubSeq(p, i, i) = "."} IN
             IF idx = {} THEN "" ELSE SubSeq(p, 1, (CHOOSE i \in idx : \A j \in idx : j <= i) - 1)
RECURSIVE Ancestors(_)
Ancestors(p) == IF p = "" THEN {""} ELSE {p} \cup Ancestors(Parent(p))
\* list indices are part of the name ("es.2"): an ancestor path may end in "es" - such paths have no extent
HasExt(e, p) == p \in DOMAIN e.ext

ToNat(s) == CHOOSE n \in 0..9 : ToString(n) = s
RECURSIVE NodeAt(_, _)
NodeAt(expr, segs) ==
  IF segs = <<>> THEN expr
  ELSE LET h == segs[1] IN
       CASE h = "es" -> NodeAt(expr.es[ToNat(segs[2])], SubSeq(segs, 3, Len(segs)))
         [] h = "items" -> NodeAt(expr.items[ToNat(segs[2])][segs[3]], SubSeq(segs, 4, Len(segs)))
         [] OTHER -> NodeAt(expr[h], Tail(segs))
RECURSIVE Split(_)
Split(p) == IF p = "" THEN <<>>
            ELSE LET idx == {i \in 1..Len(p) : SubSeq(p, i, i) = "."} IN
                 IF idx = {} THEN <<p>>
                 ELSE LET i == CHOOSE i \in idx : \A j \in idx : i <= j IN <<SubSeq(p, 1, i - 1)>> \o Split(SubSeq(p, i + 1, Len(p)))

RECURSIVE Contains(_, _)
Contains(s, sub) == IF Len(sub) > Len(s) THEN FALSE ELSE SubSeq(s, 1, Len(sub)) = sub \/ Contains(SubSeq(s, 2, Len(s)), sub)

RECURSIVE AddrText(_, _)
AddrText(steps, i) ==
  IF i > Len(steps) \/ steps[i].k = "splat" THEN ""
  ELSE (CASE steps[i].k = "root" -> steps[i].v
          [] steps[i].k = "attr" -> "." \o steps[i].v
          [] steps[i].k \in {"idx", "legacy"} -> "[" \o ToString(steps[i].v) \o "]"
          [] OTHER -> "[\"" \o steps[i].v \o "\"]") \o AddrText(steps, i + 1)

HoverViol(e) ==
  LET open == OpenTok(e.cons, e.expr, "") \cup OpenIn(e.expr, "") \cup OpenKeyHover(e.cons, e.expr, "")
      toks == TokensP(e.cons, e.expr, "", SelfOn(e))
      interp(p) == LET n == NodeAt(e.expr, Split(p)) IN
                   IF e.cons.k = "typeDecl" /\ n.k \in TypeKinds THEN TypeValid(n) ELSE \E tk \in toks : tk[3] = p
      bads == { i \in DOMAIN e.hovers :
                 LET h == e.hovers[i] p == h[1] IN
                 /\ ~InOpen(e, open, e.ext[p][1], e.ext[p][2])
                 /\ IF interp(p)
                    THEN ~(h[3] = "ok" /\ h[4] = e.ext[p][1] /\ h[5] = e.ext[p][2] /\ h[6] # "")
                    ELSE ~(h[4] = -1 \/ \E a \in Ancestors(p) : a # p /\ HasExt(e, a) /\ h[4] = e.ext[a][1] /\ h[5] = e.ext[a][2]) }
      refbad == { i \in DOMAIN e.hovers :
                 LET h == e.hovers[i] p == h[1] n == NodeAt(e.expr, Split(p)) IN
                 /\ ~InOpen(e, open, e.ext[p][1], e.ext[p][2]) /\ interp(p) /\ n.k = "ref" /\ h[3] = "ok" /\ h[4] # -1
                 /\ n.steps[Len(n.steps)].k = "attr" /\ ~Contains(h[6], n.steps[Len(n.steps)].v) }
  IN (IF bads # {} THEN LET i == CHOOSE i \in bads : TRUE IN
        {V("C12", IF interp(e.hovers[i][1]) THEN "hover inside a value does not describe the element under the cursor (range is not that element's extent)"
                  ELSE "hover describes an element the schema cannot interpret at that place")} ELSE {})
     \cup (IF refbad # {} THEN {V("C12", "hover on a resolving reference does not name the declaration it refers to")} ELSE {})

LookupViol(e) ==
  LET leaves == OriginsP(e.cons, e.expr, "", SelfOn(e))
      blind == Blind(e.cons, e.expr, "")
      bads == { i \in DOMAIN e.lookups :
                 LET lk == e.lookups[i] p == lk[1] n == NodeAt(e.expr, Split(p)) IN
                 /\ ~Under(blind, p) /\ p \notin OpenKeyOrigin(e.cons, e.expr, "")
                 /\ IF (\E x \in leaves : x.path = p) /\ Resolves(n, SelfOn(e))
                    THEN lk[3] = <<>> \/ (n.steps[Len(n.steps)].k = "attr" /\ \E j \in DOMAIN lk[3] : lk[3][j] # n.steps[Len(n.steps)].v /\ SubSeq(lk[3][j], 1, 1) # "@")
                    ELSE lk[3] # <<>> }
  IN IF bads # {} THEN
       LET i == CHOOSE i \in bads : TRUE IN
       {V("C11", IF e.lookups[i][3] = <<>> THEN "a written reference does not resolve to the declaration its address denotes"
                 ELSE "a reference resolves to a declaration its address does not denote")}
     ELSE {}

TInit == l = 1 /\ bad = {}
Step == /\ l <= Len(Trace) /\ l' = l + 1
        /\ bad' = bad \cup (IF Ev.ev = "Expr" THEN OriginViol(Ev) \cup TokenViol(Ev) \cup HoverViol(Ev) \cup LookupViol(Ev) ELSE {})
Finish == /\ l = Len(Trace) + 1
          /\ JsonSerialize(IOEnv.VOUT, [consumed |-> l - 1, bad |-> bad])
          /\ l' = l + 1 /\ UNCHANGED bad
TNext == Step \/ Finish
TSpec == TInit /\ [][TNext]_tvars
TraceAccepted == TLCGet("stats").diameter = Len(Trace) + 2
=============================================================================
