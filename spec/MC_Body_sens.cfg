SPECIFICATION Spec
CONSTANTS
  Mode = "body"
  Quick = TRUE
  MaxItems = 1
  EmitEvery = 1000000
INVARIANTS BuggyIsSpec
CHECK_DEADLOCK FALSE
