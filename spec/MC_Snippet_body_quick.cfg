SPECIFICATION Spec
CONSTANTS
  Mode = "body"
  Quick = TRUE
INVARIANTS ECD_OK Label_OK Block_OK
CONSTRAINT Emit
CHECK_DEADLOCK FALSE
