SPECIFICATION Spec
CONSTANTS
  N = 6
  Shallow = 0
INVARIANTS DisjointInv FrameInv
CHECK_DEADLOCK FALSE
