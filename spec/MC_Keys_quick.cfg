SPECIFICATION Spec
CONSTANTS
  Quick = TRUE
INVARIANT MIsCanonical
CONSTRAINT Emit
CHECK_DEADLOCK FALSE
