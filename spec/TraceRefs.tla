------------------------------ MODULE TraceRefs ------------------------------
(* Trace validation for Refs.tla: go-to-definition of the real Decoder on the replayed (targets, origins) cases of   *)
(* MC_Refs answers with exactly the declarations Resolve admits - address, scope and type constraints (C11, first    *)
(* clause); declarations are identified by their range and definition range.                                        *)
(* clause).  The inverse relation between the two lookups is decided by TraceSession!LookupViol on the same cases.   *)
EXTENDS Refs, Json, IOUtils
Trace == ndJsonDeserialize(IOEnv.TRACE)
VARIABLES l, bad
tvars == <<l, bad>>
Ev == Trace[l]
ToSet(q) == {q[i] : i \in DOMAIN q}

\* JSON has no sets: the constraints of an origin arrive as a sequence
Norm(o) == [o EXCEPT !.cons = ToSet(o.cons)]

RefViol(e) ==
  LET os == ToSet(e.os)
      bads == { i \in DOMAIN e.os :
                 LET o == Norm(e.os[i])
                     exp == UNION { { <<t.rng, t.def>> : t \in GoToDefP(e.ts, Norm(o2)) } : o2 \in {x \in os : x.rng = o.rng} }   \* (the lookup is by position: origins written at the same range answer together)
                     got == ToSet(e.defs[i]) IN
                 got # exp }
  IN IF bads = {} THEN {} ELSE
     LET i == CHOOSE i \in bads : TRUE
         o == Norm(e.os[i])
         exp == UNION { { <<t.rng, t.def>> : t \in GoToDefP(e.ts, Norm(o2)) } : o2 \in {x \in os : x.rng = o.rng} }   \* (the lookup is by position: origins written at the same range answer together)
         got == ToSet(e.defs[i]) IN
     {[l |-> l, prop |-> "C11", case |-> e.case,
       what |-> IF got \ exp # {} THEN "a reference resolves to a declaration its address / scope / type constraints do not admit"
                ELSE "a reference does not resolve to a declaration its address and constraints denote"]}

TInit == l = 1 /\ bad = {}
Step == /\ l <= Len(Trace) /\ l' = l + 1
        /\ bad' = bad \cup (IF Ev.ev = "RefCase" THEN RefViol(Ev) ELSE {})
Finish == /\ l = Len(Trace) + 1
          /\ JsonSerialize(IOEnv.VOUT, [consumed |-> l - 1, bad |-> bad])
          /\ l' = l + 1 /\ UNCHANGED bad
TNext == Step \/ Finish
TSpec == TInit /\ [][TNext]_tvars
TraceAccepted == TLCGet("stats").diameter = Len(Trace) + 2
=============================================================================
