SPECIFICATION Spec
CONSTANTS
  Mode = "block"
  EmitEvery = 1
INVARIANTS AcceptedShape
CONSTRAINT Emit
CHECK_DEADLOCK FALSE
