----------------------------- MODULE Concurrent -----------------------------
(***************************************************************************)
(* C05: N request goroutines sharing one PathContext / schema.             *)
(*                                                                         *)
(* A query reads shared (caller-owned) schema nodes, derives private       *)
(* copies (MergeBlockBodySchemas: Body.Copy(), block.Copy()), may write    *)
(* only what it owns, and returns a result that is a function of the       *)
(* shared state it read.  Labels correspond to the scheduler gates of the  *)
(* implementation: Enter = merge.enter, Copied = merge.copied,             *)
(* Exit = merge.exit.                                                      *)
(*                                                                         *)
(* Invariants: NoSharedWrite, RaceFree, ResultEqualsSequential.            *)
(* Named deviation (sensitivity configuration): AllowSharedWrite - a query *)
(* writes a shared node in place (e.g. sets Extensions.DynamicBlocks on a  *)
(* dependent block that was not copied), possibly restoring it later.      *)
(* `hist` records the interleaving of gate steps: the schedules replayed   *)
(* on the real code.                                                       *)
(***************************************************************************)
EXTENDS Naturals, Sequences, FiniteSets, TLC

CONSTANTS Workers, SharedNodes, Queries, AllowSharedWrite

(* --algorithm queries
variables
  shared = [m \in SharedNodes |-> 0],
  races = {},
  writing = [m \in SharedNodes |-> {}],
  reading = [m \in SharedNodes |-> {}],
  hist = <<>>;

process w \in Workers
variables priv = 0, seen = <<>>, n = CHOOSE x \in SharedNodes : TRUE, todo = Queries, result = <<>>;
begin
Begin:
  while todo > 0 do
    with x \in SharedNodes do n := x; end with;
    seen := <<>>;
Enter:                                           \* merge.enter: start reading the shared node
    reading[n] := reading[n] \cup {self};
    hist := Append(hist, <<self, "enter">>);
    if writing[n] # {} then races := races \cup {<<n, self, "r/w">>}; end if;
ReadEnd:
    seen := Append(seen, shared[n]);
    reading[n] := reading[n] \ {self};
Copied:                                          \* merge.copied: private copy, owned by self
    priv := shared[n];
    hist := Append(hist, <<self, "copied">>);
WriteOwn:
    priv := priv + 100;
MaybeWriteShared:
    if AllowSharedWrite then
      either skip;
      or
WStart:   writing[n] := writing[n] \cup {self};
          if reading[n] # {} \/ writing[n] # {self} then races := races \cup {<<n, self, "w/x">>}; end if;
WEnd:     shared[n] := shared[n] + 1;
          writing[n] := writing[n] \ {self};
      end either;
    end if;
Exit:                                            \* merge.exit
    result := Append(result, seen);
    hist := Append(hist, <<self, "exit">>);
    todo := todo - 1;
  end while;
end process;
end algorithm; *)

\* BEGIN TRANSLATION
VARIABLES pc, shared, races, writing, reading, hist, priv, seen, n, todo, 
          result

vars == << pc, shared, races, writing, reading, hist, priv, seen, n, todo, 
           result >>

ProcSet == (Workers)

Init == (* Global variables *)
        /\ shared = [m \in SharedNodes |-> 0]
        /\ races = {}
        /\ writing = [m \in SharedNodes |-> {}]
        /\ reading = [m \in SharedNodes |-> {}]
        /\ hist = <<>>
        (* Process w *)
        /\ priv = [self \in Workers |-> 0]
        /\ seen = [self \in Workers |-> <<>>]
        /\ n = [self \in Workers |-> CHOOSE x \in SharedNodes : TRUE]
        /\ todo = [self \in Workers |-> Queries]
        /\ result = [self \in Workers |-> <<>>]
        /\ pc = [self \in ProcSet |-> "Begin"]

Begin(self) == /\ pc[self] = "Begin"
               /\ IF todo[self] > 0
                     THEN /\ \E x \in SharedNodes:
                               n' = [n EXCEPT ![self] = x]
                          /\ seen' = [seen EXCEPT ![self] = <<>>]
                          /\ pc' = [pc EXCEPT ![self] = "Enter"]
                     ELSE /\ pc' = [pc EXCEPT ![self] = "Done"]
                          /\ UNCHANGED << seen, n >>
               /\ UNCHANGED << shared, races, writing, reading, hist, priv, 
                               todo, result >>

Enter(self) == /\ pc[self] = "Enter"
               /\ reading' = [reading EXCEPT ![n[self]] = reading[n[self]] \cup {self}]
               /\ hist' = Append(hist, <<self, "enter">>)
               /\ IF writing[n[self]] # {}
                     THEN /\ races' = (races \cup {<<n[self], self, "r/w">>})
                     ELSE /\ TRUE
                          /\ races' = races
               /\ pc' = [pc EXCEPT ![self] = "ReadEnd"]
               /\ UNCHANGED << shared, writing, priv, seen, n, todo, result >>

ReadEnd(self) == /\ pc[self] = "ReadEnd"
                 /\ seen' = [seen EXCEPT ![self] = Append(seen[self], shared[n[self]])]
                 /\ reading' = [reading EXCEPT ![n[self]] = reading[n[self]] \ {self}]
                 /\ pc' = [pc EXCEPT ![self] = "Copied"]
                 /\ UNCHANGED << shared, races, writing, hist, priv, n, todo, 
                                 result >>

Copied(self) == /\ pc[self] = "Copied"
                /\ priv' = [priv EXCEPT ![self] = shared[n[self]]]
                /\ hist' = Append(hist, <<self, "copied">>)
                /\ pc' = [pc EXCEPT ![self] = "WriteOwn"]
                /\ UNCHANGED << shared, races, writing, reading, seen, n, todo, 
                                result >>

WriteOwn(self) == /\ pc[self] = "WriteOwn"
                  /\ priv' = [priv EXCEPT ![self] = priv[self] + 100]
                  /\ pc' = [pc EXCEPT ![self] = "MaybeWriteShared"]
                  /\ UNCHANGED << shared, races, writing, reading, hist, seen, 
                                  n, todo, result >>

MaybeWriteShared(self) == /\ pc[self] = "MaybeWriteShared"
                          /\ IF AllowSharedWrite
                                THEN /\ \/ /\ TRUE
                                           /\ pc' = [pc EXCEPT ![self] = "Exit"]
                                        \/ /\ pc' = [pc EXCEPT ![self] = "WStart"]
                                ELSE /\ pc' = [pc EXCEPT ![self] = "Exit"]
                          /\ UNCHANGED << shared, races, writing, reading, 
                                          hist, priv, seen, n, todo, result >>

WStart(self) == /\ pc[self] = "WStart"
                /\ writing' = [writing EXCEPT ![n[self]] = writing[n[self]] \cup {self}]
                /\ IF reading[n[self]] # {} \/ writing'[n[self]] # {self}
                      THEN /\ races' = (races \cup {<<n[self], self, "w/x">>})
                      ELSE /\ TRUE
                           /\ races' = races
                /\ pc' = [pc EXCEPT ![self] = "WEnd"]
                /\ UNCHANGED << shared, reading, hist, priv, seen, n, todo, 
                                result >>

WEnd(self) == /\ pc[self] = "WEnd"
              /\ shared' = [shared EXCEPT ![n[self]] = shared[n[self]] + 1]
              /\ writing' = [writing EXCEPT ![n[self]] = writing[n[self]] \ {self}]
              /\ pc' = [pc EXCEPT ![self] = "Exit"]
              /\ UNCHANGED << races, reading, hist, priv, seen, n, todo, 
                              result >>

Exit(self) == /\ pc[self] = "Exit"
              /\ result' = [result EXCEPT ![self] = Append(result[self], seen[self])]
              /\ hist' = Append(hist, <<self, "exit">>)
              /\ todo' = [todo EXCEPT ![self] = todo[self] - 1]
              /\ pc' = [pc EXCEPT ![self] = "Begin"]
              /\ UNCHANGED << shared, races, writing, reading, priv, seen, n >>

w(self) == Begin(self) \/ Enter(self) \/ ReadEnd(self) \/ Copied(self)
              \/ WriteOwn(self) \/ MaybeWriteShared(self) \/ WStart(self)
              \/ WEnd(self) \/ Exit(self)

(* Allow infinite stuttering to prevent deadlock on termination. *)
Terminating == /\ \A self \in ProcSet: pc[self] = "Done"
               /\ UNCHANGED vars

Next == (\E self \in Workers: w(self))
           \/ Terminating

Spec == Init /\ [][Next]_vars

Termination == <>(\A self \in ProcSet: pc[self] = "Done")

\* END TRANSLATION

NoSharedWrite == \A x \in SharedNodes : shared[x] = 0
RaceFree == races = {}
ResultEqualsSequential == \A p \in Workers : \A i \in DOMAIN result[p] : \A j \in DOMAIN result[p][i] : result[p][i][j] = 0
AllDone == \A p \in Workers : pc[p] = "Done"
\* hist is an observation only
View == <<shared, races, writing, reading, pc, priv, seen, n, todo, result>>
=============================================================================
