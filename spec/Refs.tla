-------------------------------- MODULE Refs --------------------------------
(***************************************************************************)
(* C11: resolution of references.                                          *)
(* M layer = reference.Target.Matches, Targets.Match (deep walk),          *)
(*           Targets.InnermostAtPos (note: a nested hit REPLACES what was  *)
(*           accumulated), Origins.Match (recursion into nested targets).  *)
(* P layer = one relation Resolve(o, t) and the two lookups derived from   *)
(*           it; InverseAtDef is the statement of C11.                     *)
(* target: [addr : Seq(STRING), typ : "none"|"str"|"num"|"dyn",            *)
(*          rng : <<s,e>>, def : <<s,e>> | <<>>, nested : Seq(target)]     *)
(* origin: [addr : Seq(STRING), rng : <<s,e>>, cons : SUBSET types]        *)
(***************************************************************************)
EXTENDS Naturals, Sequences, FiniteSets, TLC

NoRng == <<>>
In(r, p) == r[1] <= p /\ p < r[2]
Conv(a, b) == a = b \/ b = "dyn" \/ a = "dyn" \/ {a, b} = {"str", "num"}

\* scope ids: an origin constraint names the scope it admits (o.scope, one for all its constraints in this model);
\* records written without the field are in scope "s"
ScopeOf(x) == IF "scope" \in DOMAIN x THEN x.scope ELSE "s"

\* reference.Target.Matches (local addresses are not part of this model).  Every constraint is scoped: a declaration of
\* another scope never matches, whatever its type - a dynamic type is no wildcard for the scope.
Matches(t, o) ==
  LET oa == IF t.typ = "dyn" /\ Len(t.addr) < Len(o.addr) /\ o.cons # {} /\ ScopeOf(o) = ScopeOf(t) THEN SubSeq(o.addr, 1, Len(t.addr)) ELSE o.addr
      consOK == IF o.cons = {} THEN t.typ # "none"
                ELSE ScopeOf(o) = ScopeOf(t) /\ \E c \in o.cons : t.typ = "dyn" \/ (t.typ # "none" /\ Conv(t.typ, c))
  IN  t.addr = oa /\ Len(t.addr) > 0 /\ consOK

RECURSIVE Deep(_)
Deep(ts) == UNION { {ts[i]} \cup Deep(ts[i].nested) : i \in DOMAIN ts }

DeepMatch(ts, o) == { t \in Deep(ts) : Matches(t, o) }

RECURSIVE Innermost(_, _), InnerLoop(_, _, _, _)
InnerLoop(ms, i, p, acc) ==
  IF i > Len(ms) THEN acc
  ELSE LET t == ms[i] IN
       IF t.def # NoRng /\ In(t.def, p) THEN InnerLoop(ms, i + 1, p, Append(acc, t))
       ELSE LET n == Innermost(t.nested, p) IN
            IF Len(n) > 0 THEN InnerLoop(ms, i + 1, p, n)
            ELSE InnerLoop(ms, i + 1, p, Append(acc, t))
Innermost(ts, p) == InnerLoop(SelectSeq(ts, LAMBDA t : In(t.rng, p)), 1, p, <<>>)

RECURSIVE OriginsMatch(_, _)
OriginsMatch(os, t) == { o \in os : Matches(t, o) } \cup UNION { OriginsMatch(os, t.nested[i]) : i \in DOMAIN t.nested }

GoToDefM(ts, o)      == DeepMatch(ts, o)
FindRefsM(ts, os, p) == LET inn == Innermost(ts, p) IN UNION { OriginsMatch(os, inn[i]) : i \in DOMAIN inn }

Resolve(o, t)    == Matches(t, o)
GoToDefP(ts, o)  == { t \in Deep(ts) : Resolve(o, t) }
FindRefsP(os, t) == { o \in os : Resolve(o, t) }

ImplIsSpec(ts, os) == \A o \in os : GoToDefM(ts, o) = GoToDefP(ts, o)
InverseAtDef(ts, os) == \A o \in os : \A t \in GoToDefM(ts, o) : t.def # NoRng => o \in FindRefsM(ts, os, t.def[1])
AskAnywhere(t) == IF t.def # NoRng THEN t.def[1] ELSE t.rng[1]
InverseStrict(ts, os) == \A o \in os : \A t \in GoToDefM(ts, o) : o \in FindRefsM(ts, os, AskAnywhere(t))
=============================================================================
