----------------------------- MODULE MC_ValComp -----------------------------
(* Universe of (constraint, typed text, placement) cases for value completion. *)
EXTENDS ValComp, Json
VARIABLES case
vars == <<case>>
AnyC(t) == [k |-> "any", t |-> t]
Cons == { AnyC(t) : t \in {"string", "number", "bool", "list", "map", "object", "dynamic"} }
        \cup { [k |-> "ref", t |-> t] : t \in {"dynamic", "string", "number"} } \cup { [k |-> "lit", t |-> t] : t \in {"bool", "string"} }
        \cup { [k |-> "kw", t |-> ""], [k |-> "listref", t |-> "string"], [k |-> "setany", t |-> "string"] }
        \* a tuple of references whose elements expect different types; the cursor is in the second element (expected type t)
        \cup { [k |-> "tup2", t |-> t] : t \in {"list", "number"} }
Typed == {"", "l", "loc.", "loc.s", "loc.o", "loc.o.", "loc.l", "s", "self.", "self.p", "b", "b.", "b.part[0].", "c.", "self.t", "u", "mk", "t", "f", "k", "zz", "loc.x", "d.", "d.t", "d.two.", "c", "count."}
Places == { [level |-> 0, self |-> FALSE, inloc |-> FALSE], [level |-> 0, self |-> FALSE, inloc |-> TRUE],
            [level |-> 1, self |-> TRUE, inloc |-> FALSE], [level |-> 1, self |-> FALSE, inloc |-> FALSE],
            [level |-> 2, self |-> TRUE, inloc |-> FALSE], [level |-> 3, self |-> FALSE, inloc |-> FALSE],
            [level |-> 4, self |-> FALSE, inloc |-> FALSE] }
\* (inside block loc the attribute being edited has loc's own any-expression constraint of dynamic type)
\* inside an expression form only under an any-expression constraint (the other constraints do not admit the form), with some text typed
\* (a typed text ending in "." is only meaningful in the plain form: elsewhere the parser returns no expression of that form)
\* (a comparison or an equality is only admitted where a bool is: not under a number)
FormOK(c, t, p, f) == f = "plain" \/ (c.k = "any" /\ c.t \in {"string", "number", "bool", "dynamic"} /\ ~p.inloc
                                      /\ (f \in {"cmpr", "cmpl", "eqr"} => c.t # "number")
                                      /\ t \in {"l", "loc.s", "loc.o", "loc.l", "s", "self.p", "self.t", "b", "u", "mk", "t", "f", "k", "zz", "d.t"})
Init == \E c \in Cons, t \in Typed, p \in Places, f \in Forms :
          (p.inloc => c = AnyC("dynamic")) /\ FormOK(c, t, p, f) /\ case = [cons |-> c, typed |-> t, place |-> p, form |-> f, exp |-> ExpType(c, f)]
Next == UNCHANGED vars
Spec == Init /\ [][Next]_vars
\* sanity: block-local names are never visible outside their block; the edited attribute is never visible
LocalOnlyInside == /\ \A lvl \in {0, 1}, sf \in BOOLEAN : (lvl = 0 \/ ~sf) => Visible([level |-> lvl, self |-> sf, edited |-> {}]) \cap SelfDecl = {}
                   /\ Visible([level |-> 2, self |-> TRUE, edited |-> {}]) \cap (SelfDecl \ SelfC) = {}
OwnBlockHidden == \A d \in Visible([level |-> 3, self |-> FALSE, edited |-> {}]) : ~IsPrefixStr("d.two", d)
NotItself == \A d \in LocDecl : d \notin Visible([level |-> 0, self |-> FALSE, edited |-> {d}])
Emit == PrintT(ToJson(case))
=============================================================================
