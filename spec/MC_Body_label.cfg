SPECIFICATION Spec
CONSTANTS
  Mode = "label"
  Quick = FALSE
  MaxItems = 0
  EmitEvery = 1
INVARIANTS LabelDistinct
CONSTRAINT Emit
CHECK_DEADLOCK FALSE
