SPECIFICATION Spec
CONSTANTS K = 4
CONSTRAINT Emit
CHECK_DEADLOCK FALSE
