SPECIFICATION Spec
CONSTANTS
  Mode = "cons"
  Quick = TRUE
INVARIANTS ECD_OK Label_OK
CONSTRAINT Emit
CHECK_DEADLOCK FALSE
