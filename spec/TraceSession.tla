---------------------------- MODULE TraceSession ----------------------------
(***************************************************************************)
(* Trace validation: one NDJSON line per Session action, recorded by the   *)
(* harness from the real library.  A line whose observation the Session    *)
(* specification does not allow is still consumed (so the rest of the      *)
(* trace is examined) and recorded in `bad' as <<line, property, detail>>. *)
(* The last step writes `bad' to IOEnv.VOUT as JSON.                       *)
(***************************************************************************)
EXTENDS Session, Json, IOUtils, SequencesExt

Trace == ndJsonDeserialize(IOEnv.TRACE)

VARIABLES l, bad
tvars == <<svars, l, bad>>

Ev == Trace[l]

Viol(prop, what, idx) == [l |-> l, prop |-> prop, what |-> what, n |-> Cardinality(idx), idx |-> idx,
                          first |-> IF idx = {} THEN 0 ELSE CHOOSE i \in idx : \A j \in idx : i <= j]

Panics(e) == { [l |-> l, prop |-> "C01", what |-> "panic " \o e.panics[i].site \o " / " \o e.panics[i].class,
                n |-> 1, first |-> e.panics[i].at] : i \in DOMAIN e.panics }

NonEmpty(S) == {v \in S : v.n > 0}

QViol(e) ==
  LET hasText == Has(text, e.p) /\ Has(text[e.p], e.f)
  IN
  Panics(e)
  \cup (IF \E s \in DOMAIN e.hist : e.hist[s] > 0 /\ s \notin Statuses /\ s # "panic"
        THEN {[l |-> l, prop |-> "C01", what |-> "outcome outside {ok,error}", n |-> 1, first |-> 0]} ELSE {})
  \cup NonEmpty({Viol("C02", "ill-formed range in " \o e.k, BadRanges(e))})
  \cup (IF ~FrameOK(e) THEN {[l |-> l, prop |-> "C04", what |-> "context fingerprint changed by " \o e.k, n |-> 1, first |-> 0]} ELSE {})
  \cup (IF e.k = "completion" /\ hasText THEN
          NonEmpty({Viol("C06", "edit range does not reach the cursor", BadEdits(e.p, e.f, e)),
                    \* (C06 says "whose range is well formed": the C02 predicate on the candidates' edit ranges)
                    Viol("C06", "ill-formed edit range of a completion candidate",
                         {i \in BadRanges(e) : e.rs[i][8] \in {".List[].TextEdit.Range", ".List[].AdditionalTextEdits[].Range"}}),
                    Viol("C06", "tab-stops not consecutive / repeated", BadStops(e))})
          \cup (IF e.maxlen > MaxCandidates THEN {[l |-> l, prop |-> "C06", what |-> "more than MaxCandidates", n |-> e.maxlen, first |-> 0]} ELSE {})
          \cup (IF e.plainbad > 0 THEN {[l |-> l, prop |-> "C06", what |-> "tab-stop syntax in plain text", n |-> e.plainbad, first |-> 0]} ELSE {})
          \cup (IF \E i \in DOMAIN e.edf : e.edf[i] # e.f THEN {[l |-> l, prop |-> "C06", what |-> "edit for another file", n |-> 1, first |-> 0]} ELSE {})
        ELSE {})
  \cup (IF e.k = "hover" THEN
          NonEmpty({Viol("C12", "hover range does not contain the cursor", BadHovers(e))})
          \cup (IF e.hovbad > 0 THEN {[l |-> l, prop |-> "C12", what |-> "empty hover content", n |-> e.hovbad, first |-> 0]} ELSE {})
        ELSE {})
  \cup (IF e.k = "tokens" /\ Has(e, "tk") THEN
          NonEmpty({Viol("C13", "tokens unsorted or overlapping", OverlapTokens(e.tk)),
                    Viol("C13", "token of a type that is not advertised", UnknownTokens(e.tk))})
          \cup { Viol("C13", "empty token (" \o t[1] \o ") followed by '" \o t[2] \o "'", {i \in EmptyTokens(e.tk) : <<e.tk[i][1], e.tk[i][4]>> = t}) :
                   t \in {<<e.tk[i][1], e.tk[i][4]>> : i \in EmptyTokens(e.tk)} }
        ELSE {})
  \cup (IF e.k = "symbols" /\ Has(e, "sy") THEN
          NonEmpty({Viol("C14", "symbol outside its parent", BadSymbols(e.sy)),
                    Viol("C14", "symbol with inverted range (end before start), hence not inside its parent", InvertedSymbols(e.sy)),
                    Viol("C14", "sibling symbols out of source order", UnorderedSymbols(e.sy))}) ELSE {})

TInit == SInit /\ l = 1 /\ bad = {}

StepInit ==
  /\ Ev.ev \in {"Init", "Reset"}
  /\ text' = EmptyFn /\ starts' = EmptyFn /\ fp' = "" /\ memo' = EmptyFn /\ edit' = NoEdit
  /\ UNCHANGED bad

StepLoad ==
  /\ Ev.ev = "Load"
  /\ Load(Ev.p, Ev.f, Ev.lines, Ev.parsed)
  /\ bad' = bad \cup (IF Ev.parsed /\ BufLen(Ev.lines) # Ev.len
                      THEN {[l |-> l, prop |-> "MODEL", what |-> "text model length differs", n |-> 1, first |-> 0]} ELSE {})

StepCollect ==
  /\ Ev.ev = "Collect"
  /\ Collect(Ev.p, Ev.fp)
  /\ bad' = bad \cup Panics(Ev)

StepQuery ==
  /\ Ev.ev = "Q"
  /\ LET v == QViol(Ev) IN
     /\ bad' = bad \cup v
     /\ IF \E x \in v : x.prop \in {"C01", "C04"}
        THEN \* not a step of Session: consume the line, keep the state (re-sync fingerprint)
             /\ fp' = IF Ev.fp # "" THEN Ev.fp ELSE fp
             /\ UNCHANGED <<text, starts, memo, edit>>
        ELSE Query(Ev.k, Ev.p, Ev.f, Ev)

\* A query issued after Load and before Collect: the targets / origins of the context are those of the previous buffer
\* (Session allows Query in that state - Load and Collect are independent steps of the caller).  Only the outcome
\* alphabet and the frame condition are asserted: ranges that come out of stale targets are the caller's data.
StepStale ==
  /\ Ev.ev = "QS"
  /\ LET v == Panics(Ev) \cup (IF \E s \in DOMAIN Ev.hist : Ev.hist[s] > 0 /\ s \notin Statuses /\ s # "panic"
                                THEN {[l |-> l, prop |-> "C01", what |-> "outcome outside {ok,error}", n |-> 1, first |-> 0]} ELSE {}) IN
     /\ bad' = bad \cup v
     /\ IF v # {} THEN UNCHANGED svars ELSE Query(Ev.k, Ev.p, Ev.f, [Ev EXCEPT !.fp = ""])

StepDet ==
  /\ Ev.ev = "Det"
  /\ IF Has(memo, Ev.key) /\ memo[Ev.key] # Ev.dg
     THEN /\ bad' = bad \cup {[l |-> l, prop |-> IF Has(Ev, "prop") THEN Ev.prop ELSE "C03", what |-> "different result for equal inputs: " \o Ev.key, n |-> 1, first |-> 0]}
          /\ UNCHANGED svars
     ELSE Det(Ev.key, Ev.dg) /\ UNCHANGED bad

StepInsert ==
  /\ Ev.ev = "InsertLines"
  /\ InsertLinesAt(Ev.p, Ev.f, Ev.at, Ev.ins, {Ev.anch[i] : i \in DOMAIN Ev.anch})
  /\ bad' = bad \cup (IF InsertLines(text[Ev.p][Ev.f], Ev.at, Ev.ins) # Ev.lines \/ InsBytes(Ev.ins) # Ev.db
                      THEN {[l |-> l, prop |-> "MODEL", what |-> "edited buffer is not InsertLines of the old one", n |-> 1, first |-> 0]} ELSE {})

\* results before/after the edit: equal up to positions (skeldiff, lendiff counted by the harness),
\* every position moved exactly by the inserted lines / bytes (decided here)
StepShift ==
  /\ Ev.ev = "Shift"
  /\ bad' = bad
       \cup (IF Ev.skeldiff > 0 THEN {[l |-> l, prop |-> "C18", what |-> "result of " \o Ev.k \o " differs beyond positions after a text-moving edit", n |-> Ev.skeldiff, first |-> 0]} ELSE {})
       \cup (IF Ev.lendiff > 0 THEN {[l |-> l, prop |-> "C18", what |-> "result of " \o Ev.k \o " has different ranges after a text-moving edit", n |-> Ev.lendiff, first |-> 0]} ELSE {})
       \cup NonEmpty({Viol("C18", "position in " \o Ev.k \o " result not moved by the inserted lines/bytes", BadMoves(Ev))})
  /\ UNCHANGED svars

\* C11: the raw answers of go-to-definition at an origin and of find-references at the definition of every reported
\* declaration.  Resolve is one relation: whenever go-to-definition reports a declaration that has a definition range,
\* find-references asked there reports the origin; path origins resolve in their target path; block-local names
\* (self / count / each) never leave the block they are written in.
LookupViol(e) ==
  LET me == <<e.p, e.orange[1], e.orange[2], e.orange[3]>> IN
  (IF e.status = "panic" THEN {[l |-> l, prop |-> "C11", what |-> "go-to-definition panicked", n |-> 1, first |-> 0]} ELSE {})
  \cup { [l |-> l, prop |-> "C11", what |-> "find-references at the definition of a declaration does not report an origin that go-to-definition resolves to it (" \o e.okind \o " origin)", n |-> 1, first |-> i]
         : i \in {i \in DOMAIN e.targets : e.targets[i].def # <<>> /\ me \notin {<<r[1], r[2], r[3], r[4]>> : r \in ToSet(e.targets[i].refs)}} }
  \cup { [l |-> l, prop |-> "C11", what |-> "an origin is resolved against a path other than its own / its declared target path", n |-> 1, first |-> i]
         : i \in {i \in DOMAIN e.targets : e.targets[i].p \notin {k[2] : k \in ToSet(e.okinds)}} }
  \cup { [l |-> l, prop |-> "C11", what |-> "a block-local name (self / count / each) resolves to a declaration in another block", n |-> 1, first |-> i]
         : i \in {i \in DOMAIN e.targets : e.local /\ e.targets[i].tblock # e.oblock} }
  \cup { [l |-> l, prop |-> "C11", what |-> "a reference ending in an attribute name resolves to a declaration of another name", n |-> 1, first |-> i]
         : i \in {i \in DOMAIN e.targets : e.olast # "" /\ e.targets[i].deftext # "" /\ e.okind = "local" /\ e.targets[i].deftext # e.olast} }
  \cup { [l |-> l, prop |-> "C11", what |-> "go-to-definition reports an origin range other than the origin asked about", n |-> 1, first |-> i]
         : i \in {i \in DOMAIN e.targets : e.targets[i].origin # e.orange} }

StepLookup ==
  /\ Ev.ev = "Lookup"
  /\ bad' = bad \cup LookupViol(Ev)
  /\ UNCHANGED svars

\* A data race (reported by the race detector of the instrumented build) or a transient write to shared state
\* is an implementation event no action of Session / Concurrent allows.
StepRace ==
  /\ Ev.ev = "Race"
  /\ bad' = bad \cup {[l |-> l, prop |-> "C05", what |-> Ev.kind \o ": " \o Ev.site, n |-> 1, first |-> 0]}
  /\ UNCHANGED svars

Finish ==
  /\ l = Len(Trace) + 1
  /\ JsonSerialize(IOEnv.VOUT, [consumed |-> l - 1, bad |-> bad])
  /\ l' = l + 1
  /\ UNCHANGED <<svars, bad>>

TNext ==
  \/ /\ l <= Len(Trace)
     /\ l' = l + 1
     /\ (StepInit \/ StepLoad \/ StepCollect \/ StepQuery \/ StepStale \/ StepDet \/ StepInsert \/ StepShift \/ StepRace \/ StepLookup)
  \/ Finish

TSpec == TInit /\ [][TNext]_tvars

\* the whole trace was consumed (one state per line, the initial state and the Finish step)
TraceAccepted == TLCGet("stats").diameter = Len(Trace) + 2
=============================================================================
