------------------------------ MODULE TraceCopy ------------------------------
(* Trace validation for CopyHeap: the heap graphs of real values and their real  *)
(* Copy(), and the digests of the untouched side after every real mutation.      *)
EXTENDS CopyHeap, Json, IOUtils, TLC

Trace == ndJsonDeserialize(IOEnv.TRACE)
VARIABLES l, bad
tvars == <<l, bad>>
Ev == Trace[l]
V(what) == [l |-> l, prop |-> "C17", what |-> what, case |-> Ev.case, type |-> Ev.type]

CopyViol(e) ==
  IF e.status # "ok" THEN {V("Copy() did not return: " \o e.status)}
  ELSE (IF ~Iso(e.orig.shape, e.copy.shape) THEN {V("copy is not structurally equal to the original")} ELSE {})
       \cup (IF ~Disjoint(e.orig.ids, e.copy.ids) THEN {V("copy shares a mutable container with the original")} ELSE {})

MutViol(e) ==
  IF e.before # e.after THEN {V("mutating the " \o e.on \o " (" \o e.what \o ") is visible on the other side")} ELSE {}

TInit == l = 1 /\ bad = {}
Step == /\ l <= Len(Trace) /\ l' = l + 1
        /\ bad' = bad \cup (IF Ev.ev = "Copy" THEN CopyViol(Ev) ELSE IF Ev.ev = "Mutate" THEN MutViol(Ev) ELSE {})
Finish == /\ l = Len(Trace) + 1
          /\ JsonSerialize(IOEnv.VOUT, [consumed |-> l - 1, bad |-> bad])
          /\ l' = l + 1 /\ UNCHANGED bad
TNext == Step \/ Finish
TSpec == TInit /\ [][TNext]_tvars
TraceAccepted == TLCGet("stats").diameter = Len(Trace) + 2
=============================================================================
