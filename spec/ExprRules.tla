------------------------------ MODULE ExprRules ------------------------------
(***************************************************************************)
(* Constraint x expression dispatch: what the schema lets a decoder see    *)
(* inside an attribute value (C10 origins, C13 value tokens, C12 value     *)
(* hover, C08 value completion).                                           *)
(*                                                                         *)
(* Expressions (tagged records, shared with the harness as JSON):          *)
(*   [k |-> "lit", t, v]            t in string | number | bool | null     *)
(*   [k |-> "ref", steps]           steps : Seq([k, v]), k in root | attr  *)
(*                                  | idx | key | legacy | splat           *)
(*   [k |-> "list", es]   [k |-> "obj", items : Seq([key, val])]           *)
(*                                  key: [k |-> "id"|"str", v] | expr      *)
(*   [k |-> "tmpl", es]   [k |-> "bin", op, l, r]   [k |-> "un", op, e]    *)
(*   [k |-> "cond", c, tt, ff]  [k |-> "call", fn, es]  [k |-> "paren", e] *)
(*   [k |-> "index", e, key]    [k |-> "for", coll, body]                  *)
(*   [k |-> "kw", v]  [k |-> "type", v]  (keyword / type name as written)  *)
(* Node paths are strings: "" the value itself, "es.2", "items.1.val", ... *)
(*                                                                         *)
(* Constraints:  [k |-> "any", t]  [k |-> "ref"]  [k |-> "lit", t]         *)
(*   [k |-> "litval"] [k |-> "kw"] [k |-> "typeDecl"]                      *)
(*   [k |-> "list"|"set", e]  [k |-> "tuple", es]  [k |-> "map", e]        *)
(*   [k |-> "obj", as : name -> C]  [k |-> "oneOf", cs]                    *)
(***************************************************************************)
EXTENDS Integers, Sequences, FiniteSets, TLC

Sub(path, p) == IF path = "" THEN p ELSE path \o "." \o p
Idx(path, name, i) == Sub(path, name \o "." \o ToString(i))

KnownFns == {"upper", "max", "join", "tolist"}

\* ---- the address a written reference denotes -------------------------------------------
\* legacy index .0 denotes [0]; everything after a splat is not part of the address
RECURSIVE Denoted(_, _)
Denoted(steps, i) ==
  IF i > Len(steps) \/ steps[i].k = "splat" THEN <<>>
  ELSE <<(IF steps[i].k = "legacy" THEN [k |-> "idx", v |-> steps[i].v] ELSE steps[i])>> \o Denoted(steps, i + 1)
AddrOf(e) == Denoted(e.steps, 1)

IsSelf(e) == e.k = "ref" /\ e.steps[1].v = "self"
HasLegacy(e) == e.k = "ref" /\ \E i \in DOMAIN e.steps : e.steps[i].k = "legacy"

\* ---- P (C10): reference leaves of an expression the schema treats as an arbitrary expression ------------
\* through lists, objects (keys in parentheses and values), templates, operators, conditionals, for expressions,
\* index keys, arguments of KNOWN functions and parentheses.  `self` says whether self.* is enabled here.
RECURSIVE Leaves(_, _, _)
Leaves(e, path, self) ==
  CASE e.k = "ref"   -> IF IsSelf(e) /\ ~self THEN {} ELSE {[path |-> path, addr |-> AddrOf(e), legacy |-> HasLegacy(e)]}
    [] e.k = "list"  -> UNION { Leaves(e.es[i], Idx(path, "es", i), self) : i \in DOMAIN e.es }
    [] e.k = "tmpl"  -> UNION { Leaves(e.es[i], Idx(path, "es", i), self) : i \in DOMAIN e.es }
    [] e.k = "obj"   -> UNION { (IF e.items[i].key.k \in {"id", "str"} THEN {} ELSE Leaves(e.items[i].key, Sub(Idx(path, "items", i), "key"), self))
                               \cup Leaves(e.items[i].val, Sub(Idx(path, "items", i), "val"), self) : i \in DOMAIN e.items }
    [] e.k = "bin"   -> Leaves(e.l, Sub(path, "l"), self) \cup Leaves(e.r, Sub(path, "r"), self)
    [] e.k = "un"    -> Leaves(e.e, Sub(path, "e"), self)
    [] e.k = "paren" -> Leaves(e.e, Sub(path, "e"), self)
    [] e.k = "cond"  -> Leaves(e.c, Sub(path, "c"), self) \cup Leaves(e.tt, Sub(path, "tt"), self) \cup Leaves(e.ff, Sub(path, "ff"), self)
    [] e.k = "index" -> Leaves(e.e, Sub(path, "e"), self) \cup Leaves(e.key, Sub(path, "key"), self)
    [] e.k = "for"   -> Leaves(e.coll, Sub(path, "coll"), self) \cup Leaves(e.body, Sub(path, "body"), self)
    [] e.k = "call"  -> IF e.fn \in KnownFns THEN UNION { Leaves(e.es[i], Idx(path, "es", i), self) : i \in DOMAIN e.es } ELSE {}
    [] OTHER -> {}

\* P (C10): origins of an attribute value under a constraint
RECURSIVE OriginsP(_, _, _, _)
OriginsP(c, e, path, self) ==
  CASE c.k = "any"   -> Leaves(e, path, self)
    [] c.k = "ref"   -> IF e.k = "ref" /\ (~IsSelf(e) \/ self) THEN {[path |-> path, addr |-> AddrOf(e), legacy |-> HasLegacy(e)]} ELSE {}
    [] c.k \in {"list", "set"} -> IF e.k = "list" THEN UNION { OriginsP(c.e, e.es[i], Idx(path, "es", i), self) : i \in DOMAIN e.es } ELSE {}
    [] c.k = "tuple" -> IF e.k = "list" THEN UNION { OriginsP(c.es[i], e.es[i], Idx(path, "es", i), self) : i \in DOMAIN e.es \cap DOMAIN c.es } ELSE {}
    [] c.k = "map"   -> IF e.k = "obj"
                        THEN UNION { OriginsP(c.e, e.items[i].val, Sub(Idx(path, "items", i), "val"), self)
                                     \cup (IF e.items[i].key.k \in {"id", "str"} THEN {} ELSE Leaves(e.items[i].key, Sub(Idx(path, "items", i), "key"), self))
                                     : i \in DOMAIN e.items }
                        ELSE {}
    [] c.k = "obj"   -> IF e.k = "obj"
                        THEN UNION { IF e.items[i].key.k \in {"id", "str"} /\ e.items[i].key.v \in DOMAIN c.as
                                     THEN OriginsP(c.as[e.items[i].key.v], e.items[i].val, Sub(Idx(path, "items", i), "val"), self)
                                     ELSE {} : i \in DOMAIN e.items }
                        ELSE {}
    [] c.k = "oneOf" -> UNION { OriginsP(c.cs[i], e, path, self) : i \in DOMAIN c.cs }
    [] OTHER -> {}

\* Places where the pinned implementation is known to deviate from P (recorded findings #19/#20): literal
\* tuple / object values under an any-expression constraint of tuple / object type are read as literals.
RECURSIVE Blind(_, _, _)
Blind(c, e, path) ==
  CASE c.k = "any" /\ c.t \in {"tuple", "object"} /\ e.k \in {"list", "obj"} -> {path}
    [] c.k \in {"list", "set"} /\ e.k = "list" -> UNION { Blind(c.e, e.es[i], Idx(path, "es", i)) : i \in DOMAIN e.es }
    [] c.k = "oneOf" -> UNION { Blind(c.cs[i], e, path) : i \in DOMAIN c.cs }
    [] OTHER -> {}

IsPrefixStr(p, s) == Len(p) <= Len(s) /\ SubSeq(s, 1, Len(p)) = p
=============================================================================
