------------------------------ MODULE ExprRules ------------------------------
(***************************************************************************)
(* Constraint x expression dispatch: what the schema lets a decoder see    *)
(* inside an attribute value (C10 origins, C13 value tokens, C12 value     *)
(* hover, C08 value completion).                                           *)
(*                                                                         *)
(* Expressions (tagged records, shared with the harness as JSON):          *)
(*   [k |-> "lit", t, v]            t in string | number | bool | null     *)
(*   [k |-> "ref", steps]           steps : Seq([k, v]), k in root | attr  *)
(*                                  | idx | key | legacy | splat           *)
(*   [k |-> "list", es]   [k |-> "obj", items : Seq([key, val])]           *)
(*                                  key: [k |-> "id"|"str", v] | expr      *)
(*   [k |-> "tmpl", es]   [k |-> "bin", op, l, r]   [k |-> "un", op, e]    *)
(*   [k |-> "cond", c, tt, ff]  [k |-> "call", fn, es]  [k |-> "paren", e] *)
(*   [k |-> "index", e, key]    [k |-> "for", coll, body]                  *)
(*   [k |-> "kw", v]  [k |-> "type", v]  (keyword / type name as written)  *)
(* Node paths are strings: "" the value itself, "es.2", "items.1.val", ... *)
(*                                                                         *)
(* Constraints:  [k |-> "any", t]  [k |-> "ref"]  [k |-> "lit", t]         *)
(*   [k |-> "litval"] [k |-> "kw"] [k |-> "typeDecl"]                      *)
(*   [k |-> "list"|"set", e]  [k |-> "tuple", es]  [k |-> "map", e]        *)
(*   [k |-> "obj", as : name -> C]  [k |-> "oneOf", cs]                    *)
(***************************************************************************)
EXTENDS Integers, Sequences, FiniteSets, TLC

Sub(path, p) == IF path = "" THEN p ELSE path \o "." \o p
Idx(path, name, i) == Sub(path, name \o "." \o ToString(i))

KnownFns == {"upper", "max", "join", "tolist"}

\* ---- the address a written reference denotes -------------------------------------------
\* legacy index .0 denotes [0]; everything after a splat is not part of the address
RECURSIVE Denoted(_, _)
Denoted(steps, i) ==
  IF i > Len(steps) \/ steps[i].k = "splat" THEN <<>>
  ELSE <<(IF steps[i].k = "legacy" THEN [k |-> "idx", v |-> steps[i].v] ELSE steps[i])>> \o Denoted(steps, i + 1)
AddrOf(e) == Denoted(e.steps, 1)

IsSelf(e) == e.k = "ref" /\ e.steps[1].v = "self"
HasLegacy(e) == e.k = "ref" /\ \E i \in DOMAIN e.steps : e.steps[i].k = "legacy"

\* ---- P (C10): reference leaves of an expression the schema treats as an arbitrary expression ------------
\* through lists, objects (keys in parentheses and values), templates, operators, conditionals, for expressions,
\* index keys, arguments of KNOWN functions and parentheses.  `self` = [on : are self.* references enabled
\* in the body that holds the attribute, level : nesting of that body (0 root, 1 in block b, 2 in b.in)].
RECURSIVE Leaves(_, _, _)
Leaves(e, path, self) ==
  CASE e.k = "ref"   -> IF IsSelf(e) /\ ~self.on THEN {} ELSE {[path |-> path, addr |-> AddrOf(e), legacy |-> HasLegacy(e)]}
    [] e.k = "list"  -> UNION { Leaves(e.es[i], Idx(path, "es", i), self) : i \in DOMAIN e.es }
    [] e.k = "tmpl"  -> UNION { Leaves(e.es[i], Idx(path, "es", i), self) : i \in DOMAIN e.es }
    [] e.k = "obj"   -> UNION { (IF e.items[i].key.k \in {"id", "str"} THEN {} ELSE Leaves(e.items[i].key, Sub(Idx(path, "items", i), "key"), self))
                               \cup Leaves(e.items[i].val, Sub(Idx(path, "items", i), "val"), self) : i \in DOMAIN e.items }
    [] e.k = "bin"   -> Leaves(e.l, Sub(path, "l"), self) \cup Leaves(e.r, Sub(path, "r"), self)
    [] e.k = "un"    -> Leaves(e.e, Sub(path, "e"), self)
    [] e.k = "paren" -> Leaves(e.e, Sub(path, "e"), self)
    [] e.k = "cond"  -> Leaves(e.c, Sub(path, "c"), self) \cup Leaves(e.tt, Sub(path, "tt"), self) \cup Leaves(e.ff, Sub(path, "ff"), self)
    [] e.k = "index" -> Leaves(e.e, Sub(path, "e"), self) \cup Leaves(e.key, Sub(path, "key"), self)
    \* e[*][key]: what follows a full splat is applied to each element - a computed key written there is an expression of its own
    [] e.k = "splat" -> Leaves(e.e, Sub(path, "e"), self) \cup Leaves(e.key, Sub(path, "key"), self)
    [] e.k = "for"   -> Leaves(e.coll, Sub(path, "coll"), self) \cup Leaves(e.body, Sub(path, "body"), self)
    [] e.k = "call"  -> IF e.fn \in KnownFns THEN UNION { Leaves(e.es[i], Idx(path, "es", i), self) : i \in DOMAIN e.es } ELSE {}
    [] OTHER -> {}

\* P (C10): origins of an attribute value under a constraint
RECURSIVE OriginsP(_, _, _, _)
OriginsP(c, e, path, self) ==
  CASE c.k = "any"   -> Leaves(e, path, self)
    [] c.k = "ref"   -> IF e.k = "ref" /\ (~IsSelf(e) \/ self.on) THEN {[path |-> path, addr |-> AddrOf(e), legacy |-> HasLegacy(e)]} ELSE {}
    [] c.k \in {"list", "set"} -> IF e.k = "list" THEN UNION { OriginsP(c.e, e.es[i], Idx(path, "es", i), self) : i \in DOMAIN e.es } ELSE {}
    [] c.k = "tuple" -> IF e.k = "list" THEN UNION { OriginsP(c.es[i], e.es[i], Idx(path, "es", i), self) : i \in DOMAIN e.es \cap DOMAIN c.es } ELSE {}
    [] c.k = "map"   -> IF e.k = "obj"
                        THEN UNION { OriginsP(c.e, e.items[i].val, Sub(Idx(path, "items", i), "val"), self)
                                     \cup (IF e.items[i].key.k \in {"id", "str"} THEN {} ELSE Leaves(e.items[i].key, Sub(Idx(path, "items", i), "key"), self))
                                     : i \in DOMAIN e.items }
                        ELSE {}
    [] c.k = "obj"   -> IF e.k = "obj"
                        THEN UNION { IF e.items[i].key.k \in {"id", "str"} /\ e.items[i].key.v \in DOMAIN c.as
                                     THEN OriginsP(c.as[e.items[i].key.v], e.items[i].val, Sub(Idx(path, "items", i), "val"), self)
                                     ELSE {} : i \in DOMAIN e.items }
                        ELSE {}
    [] c.k = "oneOf" -> UNION { OriginsP(c.cs[i], e, path, self) : i \in DOMAIN c.cs }
    [] OTHER -> {}

\* Places where the pinned implementation is known to deviate from P (recorded findings #19/#20): literal
\* tuple / object values under an any-expression constraint of tuple / object type are read as literals.
RECURSIVE Blind(_, _, _)
Blind(c, e, path) ==
  CASE c.k = "any" /\ c.t \in {"tuple", "object"} /\ e.k \in {"list", "obj"} -> {path}
    [] c.k \in {"list", "set"} /\ e.k = "list" -> UNION { Blind(c.e, e.es[i], Idx(path, "es", i)) : i \in DOMAIN e.es }
    [] c.k = "oneOf" -> UNION { Blind(c.cs[i], e, path) : i \in DOMAIN c.cs }
    [] OTHER -> {}

\* ---- what is declared in the fixed declarations of the replayed documents (block loc) ----------------------
Tup(steps) == [i \in DOMAIN steps |-> <<steps[i].k, steps[i].v>>]
Declared == { << <<"root", "loc">>, <<"attr", "s">> >>, << <<"root", "loc">>, <<"attr", "n">> >>, << <<"root", "loc">>, <<"attr", "b">> >>,
              << <<"root", "loc">>, <<"attr", "l">> >>, << <<"root", "loc">>, <<"attr", "l">>, <<"idx", 0>> >>, << <<"root", "loc">>, <<"attr", "l">>, <<"idx", 1>> >>,
              << <<"root", "loc">>, <<"attr", "o">> >>, << <<"root", "loc">>, <<"attr", "o">>, <<"attr", "k">> >>, << <<"root", "loc">>, <<"attr", "o">>, <<"attr", "n">> >>,
              << <<"root", "loc">>, <<"attr", "m">> >>, << <<"root", "loc">>, <<"attr", "m">>, <<"attr", "a">> >> }
\* block b (present in the document when the attribute sits at level >= 1): addressable, its body inferred, self.* = b.*
DeclaredB == { << <<"root", "b">> >>, << <<"root", "b">>, <<"attr", "sa">> >>, << <<"root", "b">>, <<"attr", "part">> >>,
               << <<"root", "b">>, <<"attr", "part">>, <<"idx", 0>> >>, << <<"root", "b">>, <<"attr", "part">>, <<"idx", 1>> >>,
               << <<"root", "b">>, <<"attr", "part">>, <<"idx", 0>>, <<"attr", "pw">> >>, << <<"root", "b">>, <<"attr", "part">>, <<"idx", 0>>, <<"attr", "ph">> >>,
               << <<"root", "b">>, <<"attr", "part">>, <<"idx", 1>>, <<"attr", "pw">> >>, << <<"root", "b">>, <<"attr", "part">>, <<"idx", 1>>, <<"attr", "ph">> >> }
Resolves(e, self) ==
  LET a == Tup(AddrOf(e)) IN
  IF IsSelf(e) THEN self.on /\ self.level >= 1 /\ Len(a) > 1 /\ (<< <<"root", "b">> >> \o SubSeq(a, 2, Len(a))) \in DeclaredB
  ELSE a \in Declared \/ (self.level >= 1 /\ a \in DeclaredB)
HasSplat(e) == \E i \in DOMAIN e.steps : e.steps[i].k = "splat"

\* ---- P (C13): tokens inside a value ---------------------------------------------------------------------------
\* abstract token: <<type, part, path, i>>  part in "full" (the node), "step" (i-th step of a reference), "name" (function name)
LitTok(e, path) == IF e.t = "string" THEN {<<"hcl-string", "full", path, 0>>}
                   ELSE IF e.t = "number" THEN {<<"hcl-number", "full", path, 0>>}
                   ELSE IF e.t = "bool" THEN {<<"hcl-bool", "full", path, 0>>} ELSE {}
StepTok(e, path) ==
  { <<(CASE e.steps[i].k \in {"root", "attr"} -> "hcl-referenceStep" [] e.steps[i].k \in {"idx", "legacy"} -> "hcl-number" [] OTHER -> "hcl-mapKey"), "step", path, i>>
      : i \in {i \in DOMAIN e.steps : \A j \in 1..i : e.steps[j].k # "splat"} }
RefTok(e, path, self) == IF (~IsSelf(e) \/ self.on) /\ Resolves(e, self) THEN StepTok(e, path) ELSE {}

RECURSIVE AnyTok(_, _, _, _)
AnyTok(e, path, self, t) ==
  CASE e.k = "lit"   -> LitTok(e, path)
    [] e.k = "ref"   -> RefTok(e, path, self)
    [] e.k = "list"  -> UNION { AnyTok(e.es[i], Idx(path, "es", i), self, "elem") : i \in DOMAIN e.es }
    [] e.k = "tmpl"  -> UNION { IF e.es[i].k = "text" THEN {<<"hcl-string", "full", Idx(path, "es", i), 0>>} ELSE AnyTok(e.es[i], Idx(path, "es", i), self, "string") : i \in DOMAIN e.es }
    [] e.k = "obj"   -> UNION { (IF e.items[i].key.k \in {"id", "str"}
                                 THEN {<<(IF t = "object" THEN "hcl-objectKey" ELSE "hcl-mapKey"), "full", Sub(Idx(path, "items", i), "key"), 0>>}
                                 ELSE AnyTok(e.items[i].key, Sub(Idx(path, "items", i), "key"), self, "string"))
                               \cup AnyTok(e.items[i].val, Sub(Idx(path, "items", i), "val"), self, "elem") : i \in DOMAIN e.items }
    [] e.k = "bin"   -> AnyTok(e.l, Sub(path, "l"), self, "x") \cup AnyTok(e.r, Sub(path, "r"), self, "x")
    [] e.k = "un"    -> AnyTok(e.e, Sub(path, "e"), self, "x")
    [] e.k = "paren" -> AnyTok(e.e, Sub(path, "e"), self, t)
    [] e.k = "cond"  -> AnyTok(e.c, Sub(path, "c"), self, "bool") \cup AnyTok(e.tt, Sub(path, "tt"), self, t) \cup AnyTok(e.ff, Sub(path, "ff"), self, t)
    [] e.k = "index" -> AnyTok(e.e, Sub(path, "e"), self, "x") \cup AnyTok(e.key, Sub(path, "key"), self, "x")
    [] e.k = "for"   -> AnyTok(e.coll, Sub(path, "coll"), self, "x") \cup AnyTok(e.body, Sub(path, "body"), self, "x")
    [] e.k = "call"  -> IF e.fn \in KnownFns THEN {<<"hcl-functionName", "name", path, 0>>} \cup UNION { AnyTok(e.es[i], Idx(path, "es", i), self, "x") : i \in DOMAIN e.es } ELSE {}
    [] OTHER -> {}

\* ---- type declarations (a little language of its own under the type-declaration constraint) ---------------
\*   [k |-> "tprim", v]  string | number | bool | any          [k |-> "tcoll", fn, e]   list(T) set(T) map(T)
\*   [k |-> "tobj", items : Seq([key |-> [k |-> "id", v], val |-> T])]   object({ k = T, .. })
\*   [k |-> "ttup", es]   tuple([T, ..])      [k |-> "topt", e]  optional(T)  (left open)     [k |-> "tbad", v]  a name that is no type
TypeKinds == {"tprim", "tcoll", "tobj", "ttup", "topt", "tbad"}
RECURSIVE TypeTok(_, _)
TypeTok(e, path) ==
  CASE e.k = "tprim" -> {<<"hcl-typePrimitive", "full", path, 0>>}
    [] e.k = "tcoll" -> {<<"hcl-typeComplex", "name", path, 0>>} \cup TypeTok(e.e, Sub(path, "e"))
    [] e.k = "tobj"  -> {<<"hcl-typeComplex", "name", path, 0>>}
                        \cup UNION { {<<"hcl-attrName", "full", Sub(Idx(path, "items", i), "key"), 0>>} \cup TypeTok(e.items[i].val, Sub(Idx(path, "items", i), "val")) : i \in DOMAIN e.items }
    [] e.k = "ttup"  -> {<<"hcl-typeComplex", "name", path, 0>>} \cup UNION { TypeTok(e.es[i], Idx(path, "es", i)) : i \in DOMAIN e.es }
    [] OTHER -> {}
\* a type declaration the hover can describe: every part of it is a type (a complex type with a part that is no type is
\* marked as far as it goes - its name token - but there is no type to describe)
RECURSIVE TypeValid(_)
TypeValid(e) ==
  CASE e.k = "tprim" -> TRUE
    [] e.k = "tcoll" -> TypeValid(e.e)
    [] e.k = "tobj"  -> \A i \in DOMAIN e.items : TypeValid(e.items[i].val)
    [] e.k = "ttup"  -> \A i \in DOMAIN e.es : TypeValid(e.es[i])
    [] e.k = "topt"  -> TypeValid(e.e)
    [] OTHER -> FALSE
\* optional(T [, default]) is only meaningful as the type of an object attribute; what is marked inside it is left open
RECURSIVE TypeOpen(_, _)
TypeOpen(e, path) ==
  CASE e.k = "topt"  -> {path}
    [] e.k = "tcoll" -> TypeOpen(e.e, Sub(path, "e"))
    [] e.k = "tobj"  -> UNION { TypeOpen(e.items[i].val, Sub(Idx(path, "items", i), "val")) : i \in DOMAIN e.items }
    [] e.k = "ttup"  -> UNION { TypeOpen(e.es[i], Idx(path, "es", i)) : i \in DOMAIN e.es }
    [] OTHER -> {}

RECURSIVE TokensP(_, _, _, _)
TokensP(c, e, path, self) ==
  CASE c.k = "any"   -> AnyTok(e, path, self, c.t)
    [] c.k = "ref"   -> IF e.k = "ref" THEN RefTok(e, path, self) ELSE {}
    [] c.k = "lit"   -> IF e.k = "lit" /\ e.t = c.t THEN LitTok(e, path) ELSE {}
    [] c.k = "kw"    -> IF e.k = "kw" THEN {<<"hcl-keyword", "full", path, 0>>} ELSE {}
    [] c.k = "typeDecl" -> IF e.k = "type" /\ e.v = "string" THEN {<<"hcl-typePrimitive", "full", path, 0>>}
                           ELSE IF e.k \in TypeKinds THEN TypeTok(e, path) ELSE {}
    [] c.k \in {"list", "set"} -> IF e.k = "list" THEN UNION { TokensP(c.e, e.es[i], Idx(path, "es", i), self) : i \in DOMAIN e.es } ELSE {}
    [] c.k = "tuple" -> IF e.k = "list" THEN UNION { TokensP(c.es[i], e.es[i], Idx(path, "es", i), self) : i \in DOMAIN e.es \cap DOMAIN c.es } ELSE {}
    [] c.k = "map"   -> IF e.k = "obj"
                        THEN UNION { (IF e.items[i].key.k \in {"id", "str"} THEN {<<"hcl-mapKey", "full", Sub(Idx(path, "items", i), "key"), 0>>}
                                      ELSE AnyTok(e.items[i].key, Sub(Idx(path, "items", i), "key"), self, "string"))
                                     \cup TokensP(c.e, e.items[i].val, Sub(Idx(path, "items", i), "val"), self) : i \in DOMAIN e.items }
                        ELSE {}
    [] c.k = "obj"   -> IF e.k = "obj"
                        THEN UNION { IF e.items[i].key.k \in {"id", "str"} /\ e.items[i].key.v \in DOMAIN c.as
                                     THEN {<<"hcl-objectKey", "full", Sub(Idx(path, "items", i), "key"), 0>>}
                                          \cup TokensP(c.as[e.items[i].key.v], e.items[i].val, Sub(Idx(path, "items", i), "val"), self)
                                     ELSE {} : i \in DOMAIN e.items }
                        ELSE {}
    [] OTHER -> {}

\* tokens only: items with a computed key under a map / object constraint that does not allow such keys
OpenKeyItems(c, e, path) ==
  IF c.k \in {"map", "obj"} /\ e.k = "obj"
  THEN UNION { IF e.items[i].key.k \in {"id", "str"} THEN {} ELSE {Sub(Idx(path, "items", i), "key"), Sub(Idx(path, "items", i), "val")} : i \in DOMAIN e.items }
  ELSE {}

\* hover only: the computed key itself of such an item under a map constraint
OpenKeyHover(c, e, path) ==
  IF c.k = "map" /\ e.k = "obj"
  THEN UNION { IF e.items[i].key.k \in {"id", "str"} THEN {} ELSE {Sub(Idx(path, "items", i), "key")} : i \in DOMAIN e.items }
  ELSE {}
\* origins / resolution only: a computed key under an object constraint (is it a place that admits an expression?)
OpenKeyOrigin(c, e, path) ==
  IF c.k = "obj" /\ e.k = "obj"
  THEN UNION { IF e.items[i].key.k \in {"id", "str"} THEN {} ELSE {Sub(Idx(path, "items", i), "key")} : i \in DOMAIN e.items }
  ELSE {}

\* every literal collection somewhere inside a value whose constraint is an any-expression of dynamic type
RECURSIVE Colls(_, _)
Colls(e, path) ==
  CASE e.k \in {"list", "obj"} -> {path}
    [] e.k = "tmpl" -> UNION { IF e.es[i].k = "text" THEN {} ELSE Colls(e.es[i], Idx(path, "es", i)) : i \in DOMAIN e.es }
    [] e.k = "call" -> UNION { Colls(e.es[i], Idx(path, "es", i)) : i \in DOMAIN e.es }
    [] e.k = "bin"  -> Colls(e.l, Sub(path, "l")) \cup Colls(e.r, Sub(path, "r"))
    [] e.k \in {"un", "paren"} -> Colls(e.e, Sub(path, "e"))
    [] e.k = "cond" -> Colls(e.c, Sub(path, "c")) \cup Colls(e.tt, Sub(path, "tt")) \cup Colls(e.ff, Sub(path, "ff"))
    [] e.k = "index" -> Colls(e.e, Sub(path, "e")) \cup Colls(e.key, Sub(path, "key"))
    [] e.k = "for"  -> Colls(e.coll, Sub(path, "coll")) \cup Colls(e.body, Sub(path, "body"))
    [] OTHER -> {}

\* Regions of a value about which the statement (or a recorded finding) leaves tokens / hover open: arguments of unknown
\* functions, literal collections under an any-expression constraint of dynamic type, the blind spots of Blind(),
\* one-of constraints (which alternative interprets the value), type declarations other than a primitive name, splats.
RECURSIVE OpenTok(_, _, _)
OpenTok(c, e, path) ==
  Blind(c, e, path)
  \cup (CASE c.k = "oneOf" -> {path}
          [] c.k = "typeDecl" /\ e.k \in TypeKinds -> TypeOpen(e, path)
          [] c.k = "typeDecl" /\ ~(e.k = "type" /\ e.v = "string") /\ e.k # "ref" -> {path}
          [] c.k = "any" /\ c.t = "dynamic" -> Colls(e, path)
          [] c.k \in {"list", "set"} /\ e.k = "list" -> UNION { OpenTok(c.e, e.es[i], Idx(path, "es", i)) : i \in DOMAIN e.es }
          [] OTHER -> {})
RECURSIVE OpenIn(_, _)
OpenIn(e, path) ==   \* open sub-regions inside an arbitrary expression
  CASE e.k = "call" -> IF e.fn \in KnownFns THEN UNION { OpenIn(e.es[i], Idx(path, "es", i)) : i \in DOMAIN e.es } ELSE {path}
    [] e.k = "ref"  -> IF HasSplat(e) THEN {path} ELSE {}
    [] e.k \in {"list", "tmpl"} -> UNION { OpenIn(e.es[i], Idx(path, "es", i)) : i \in DOMAIN e.es }
    [] e.k = "obj"  -> UNION { OpenIn(e.items[i].val, Sub(Idx(path, "items", i), "val")) : i \in DOMAIN e.items }
    [] e.k = "bin"  -> OpenIn(e.l, Sub(path, "l")) \cup OpenIn(e.r, Sub(path, "r"))
    [] e.k \in {"un", "paren"} -> OpenIn(e.e, Sub(path, "e"))
    [] e.k = "cond" -> OpenIn(e.c, Sub(path, "c")) \cup OpenIn(e.tt, Sub(path, "tt")) \cup OpenIn(e.ff, Sub(path, "ff"))
    [] e.k = "index" -> OpenIn(e.e, Sub(path, "e")) \cup OpenIn(e.key, Sub(path, "key"))
    [] e.k = "splat" -> {path}
    [] e.k = "for"  -> OpenIn(e.coll, Sub(path, "coll")) \cup OpenIn(e.body, Sub(path, "body"))
    [] OTHER -> {}

IsPrefixStr(p, s) == Len(p) <= Len(s) /\ SubSeq(s, 1, Len(p)) = p
=============================================================================
