----------------------------- MODULE MC_Targets -----------------------------
(* Universe of documents over a schema with every kind of addressable declaration (C09). *)
EXTENDS Targets, Json
CONSTANTS MaxItems
VARIABLES case
vars == <<case>>

A(req) == [req |-> req, opt |-> ~req, comp |-> FALSE, dep |-> FALSE, depr |-> FALSE, dflt |-> Nil]
Body(attrs, blocks, ext) == [attrs |-> attrs, blocks |-> blocks, any |-> FALSE, ext |-> ext, link |-> FALSE]
Blk(ls, body, deps) == [labels |-> ls, body |-> body, deps |-> deps, min |-> 0, max |-> 0, depr |-> FALSE]
AddrB(steps, scope, asRef, asTypeOf, bad, dbad, un) ==
  [steps |-> steps, scope |-> scope, asRef |-> asRef, asType |-> FALSE, asTypeOf |-> asTypeOf, bodyAsData |-> bad, depBodyAsData |-> dbad, unknownNested |-> un]
AddrA(steps, scope, asRef, asType) ==
  [steps |-> steps, scope |-> scope, asRef |-> asRef, asType |-> asType, asTypeOf |-> "", bodyAsData |-> FALSE, depBodyAsData |-> FALSE, unknownNested |-> FALSE]
L(dep) == [dep |-> dep, comp |-> FALSE]
Str(v) == [k |-> "str", v |-> v]
Ty(v) == [k |-> "type", v |-> v]
AnyD == [k |-> "any", t |-> "dynamic"]

VarS == Blk(<<L(FALSE)>>, Body([type |-> A(FALSE) @@ [cons |-> [k |-> "typeDecl"]], default |-> A(FALSE)], EmptyFn, NoExt), <<>>)
        @@ [addr |-> AddrB(<< <<"static", "var">>, <<"label", 0>> >>, "variable", TRUE, "type", FALSE, FALSE, FALSE)]
ResS(un) == Blk(<<L(TRUE), L(FALSE)>>, Body([top |-> A(FALSE)], EmptyFn, [count |-> TRUE, forEach |-> TRUE, dyn |-> FALSE]),
                << [lk |-> << <<0, "x">> >>, ak |-> <<>>, body |-> Body([a |-> A(FALSE), l |-> A(FALSE), rf |-> A(FALSE) @@ [cons |-> [k |-> "ref"]]], EmptyFn, NoExt)] >>)
            @@ [addr |-> AddrB(<< <<"label", 0>>, <<"label", 1>> >>, "resource", TRUE, "", FALSE, TRUE, un)]
SubS == Blk(<<>>, Body([x |-> A(FALSE) @@ [cons |-> AnyD]], EmptyFn, NoExt), <<>>)
LocS(asRef, asType) == Blk(<<>>, [attrs |-> EmptyFn, blocks |-> [sub |-> SubS], any |-> TRUE, ext |-> NoExt, link |-> FALSE,
                                   anyaddr |-> AddrA(<< <<"static", "loc">>, <<"attrname", "">> >>, "local", asRef, asType)], <<>>)
Sel == [req |-> FALSE, opt |-> TRUE, comp |-> FALSE, dep |-> TRUE, depr |-> FALSE, dflt |-> Nil]
ModS == Blk(<<L(FALSE)>>, Body([source |-> Sel @@ [cons |-> [k |-> "lit", t |-> "string"]]], EmptyFn, NoExt),
            << [lk |-> <<>>, ak |-> << <<"source", Str("s1")>> >>, body |-> Body([in1 |-> A(FALSE)], EmptyFn, NoExt) @@ [tas |-> <<[addr |-> <<"module", "x">>, scope |-> "module", typ |-> "string"]>>]],
               [lk |-> <<>>, ak |-> << <<"source", Str("s2")>> >>, body |-> Body([in2 |-> A(FALSE)], EmptyFn, NoExt) @@ [tas |-> <<[addr |-> <<"module", "y">>, scope |-> "module", typ |-> "object",
                                                                       \* nested targetables: module.y.id below module.y (structural predicates of TraceTargets)
                                                                       nested |-> <<[addr |-> <<"module", "y", "id">>, scope |-> "module", typ |-> "string"]>>]>>]] >>)
        @@ [addr |-> AddrB(<< <<"static", "module">>, <<"label", 0>> >>, "module", TRUE, "", FALSE, FALSE, FALSE)]
ByValS(opt) == Blk(<<>>, Body([name |-> A(FALSE)], EmptyFn, NoExt), <<>>)
               @@ [addr |-> AddrB(<< <<"static", "bv">>, <<(IF opt THEN "attrvalopt" ELSE "attrval"), "name">> >>, "bv", TRUE, "", FALSE, FALSE, FALSE)]
InnerS == Blk(<<L(FALSE)>>, Body([w |-> A(FALSE) @@ [addr |-> AddrA(<< <<"static", "w">>, <<"attrname", "">> >>, "ws", TRUE, TRUE), cons |-> AnyD],
                                   kwa |-> A(FALSE) @@ [addr |-> AddrA(<< <<"static", "w">>, <<"attrname", "">> >>, "ws", TRUE, FALSE), cons |-> [k |-> "kw"]]], EmptyFn, NoExt), <<>>)
          @@ [addr |-> AddrB(<< <<"static", "inn">>, <<"label", 0>> >>, "inner", TRUE, "", TRUE, FALSE, FALSE)]
OuterS == Blk(<<>>, Body(EmptyFn, [innerb |-> InnerS], NoExt), <<>>)

\* (C19) dynamic blocks in a body without dependency keys; a dependent body selected in two steps (label, then attribute)
DynS == Blk(<<L(FALSE)>>, Body([title |-> A(FALSE)], [setting |-> Blk(<<>>, Body([key |-> A(FALSE)], EmptyFn, NoExt), <<>>)], [count |-> FALSE, forEach |-> FALSE, dyn |-> TRUE]), <<>>)
SelS == Sel @@ [cons |-> [k |-> "lit", t |-> "string"]]   \* (a JSON string under a reference-admitting constraint IS a reference)
RemS == Blk(<<L(TRUE), L(FALSE)>>, Body([enabled |-> A(FALSE)], EmptyFn, NoExt),
            << [lk |-> << <<0, "rs">> >>, ak |-> <<>>, body |-> Body([backend |-> SelS, workspace |-> A(FALSE)], EmptyFn, NoExt)],
               [lk |-> << <<0, "rs">> >>, ak |-> << <<"backend", Str("s3")>> >>, body |-> Body([backend |-> SelS, bucket |-> A(FALSE)], EmptyFn, NoExt)] >>)
Schemas == { s \in { Body([plain |-> A(FALSE), prov |-> A(FALSE) @@ [cons |-> [k |-> "refdecl"]]], [var |-> VarS, res |-> ResS(un), loc |-> LocS(r, t), mod |-> ModS, byval |-> ByValS(o), outer |-> OuterS, dyn |-> DynS, rem |-> RemS], NoExt)
             : un \in BOOLEAN, r \in BOOLEAN, t \in BOOLEAN, o \in BOOLEAN } :
             s.blocks["loc"].body.anyaddr.asRef \/ s.blocks["loc"].body.anyaddr.asType }   \* (an address schema needs at least one of the two)

At(n) == [k |-> "attr", name |-> n, val |-> [k |-> "other"]]
AtV(n, v) == [k |-> "attr", name |-> n, val |-> v]
B(t, ls, body) == [k |-> "block", type |-> t, labels |-> ls, body |-> body]
ListV == [k |-> "list", es |-> <<[k |-> "lit", t |-> "string", v |-> "p"], [k |-> "lit", t |-> "string", v |-> "q"]>>]
ObjV == [k |-> "obj", items |-> <<[key |-> [k |-> "id", v |-> "k"], val |-> [k |-> "lit", t |-> "string", v |-> "v"]]>>]

Pool == { B("var", <<"a">>, <<AtV("type", Ty("string"))>>), B("var", <<"b">>, <<AtV("type", Ty("list(string)")), At("default")>>), B("var", <<"c">>, <<>>),
          B("var", <<>>, <<>>), B("var", <<"d", "extra">>, <<AtV("type", Str("notatype"))>>),
          B("res", <<"x", "n1">>, <<AtV("a", Str("v")), AtV("count", [k |-> "num", v |-> "2"]), At("zz")>>), B("res", <<"y", "n2">>, <<AtV("for_each", ListV)>>), B("res", <<"x">>, <<>>),
          B("loc", <<>>, <<AtV("s", Str("x")), AtV("n", [k |-> "num", v |-> "1"]), AtV("l", ListV), AtV("o", ObjV), AtV("r", [k |-> "ref", v |-> "var.a"]), At("b")>>),
          B("loc", <<>>, <<AtV("s2", Str("y")), B("sub", <<>>, <<AtV("x", [k |-> "ref", v |-> "var.b"])>>)>>),
          B("res", <<"x", "n3">>, <<AtV("rf", [k |-> "ref", v |-> "var.a"])>>), B("res", <<"x", "n4">>, <<AtV("rf", [k |-> "tmplref", v |-> "var.a"])>>),
          B("mod", <<"m1">>, <<AtV("source", Str("s1")), At("in1")>>), B("mod", <<"m2">>, <<AtV("source", Str("s2"))>>), B("mod", <<"m3">>, <<AtV("source", Str("zz"))>>),
          B("byval", <<>>, <<AtV("name", Str("n1"))>>), B("byval", <<>>, <<>>), B("byval", <<>>, <<AtV("name", [k |-> "num", v |-> "5"])>>),
          B("outer", <<>>, <<B("innerb", <<"k">>, <<AtV("w", Str("s"))>>), B("innerb", <<>>, <<>>)>>),
          B("outer", <<>>, <<B("innerb", <<"k2">>, <<AtV("kwa", [k |-> "kw", v |-> "kw"])>>)>>),
          B("dyn", <<"d1">>, <<At("title"), B("dynamic", <<"setting">>, <<AtV("for_each", ListV), B("content", <<>>, <<At("key")>>)>>)>>),
          B("dyn", <<"d2">>, <<B("setting", <<>>, <<At("key")>>)>>),
          B("rem", <<"rs", "partial">>, <<At("enabled"), AtV("backend", Str("local")), At("workspace")>>),
          B("rem", <<"rs", "full">>, <<AtV("backend", Str("s3")), At("bucket")>>),
          AtV("prov", [k |-> "legref", v |-> "aws.west", addr |-> <<"aws", "west">>]), AtV("prov", [k |-> "legref", v |-> "aws", addr |-> <<"aws">>]),
          B("zz", <<"q">>, <<At("x")>>), At("plain"), At("unknown_attr") }
NoDupAttr(d) == \A i, j \in DOMAIN d : d[i].k = "attr" /\ d[j].k = "attr" /\ d[i].name = d[j].name => i = j
Docs == { d \in UNION { [1..n -> Pool] : n \in 0..MaxItems } : NoDupAttr(d) }

Init == \E s \in Schemas, d \in Docs : case = [schema |-> s, doc |-> d]
Next == UNCHANGED vars
Spec == Init /\ [][Next]_vars

\* sanity on the model: nothing for unknown items; targets point at items of the document; no two identical targets
OnlyKnown == \A t \in TargetsP(case.schema, case.doc, <<>>) :
               LET top == case.doc[t.rng[1]] IN ~(top.k = "block" /\ top.type = "zz") /\ ~(top.k = "attr" /\ top.name = "unknown_attr")
AddrNonEmpty == \A t \in TargetsP(case.schema, case.doc, <<>>) : t.addr # <<>> \/ t.local # <<>>
Emit == PrintT(ToJson(case))
=============================================================================
