SPECIFICATION Spec
INVARIANTS ImplIsSpecInv AtDef
CONSTRAINT Emit
CHECK_DEADLOCK FALSE
