SPECIFICATION Spec
CONSTANTS D = 3
INVARIANTS DistinctPaths NoSelfWhenOff LiteralQuiet
CONSTRAINT Emit
CHECK_DEADLOCK FALSE
