SPECIFICATION Spec
CONSTANTS D = 2
INVARIANTS DistinctPaths NoSelfWhenOff LiteralQuiet
CONSTRAINT Emit
CHECK_DEADLOCK FALSE
