----------------------------- MODULE MC_Snippet -----------------------------
(* Universe of constraint trees (for EmptyCompletionData) and of body schemas (for the required-fields snippet of *)
(* label completion).  TLC checks StopsOK on the transcription and prints the cases for replay on the real code.  *)
EXTENDS Snippet, Json, TLC
CONSTANTS Mode,       \* "cons" | "body"
          Quick
VARIABLES case
vars == <<case>>

T0 == {Ty("string"), Ty("number"), Ty("bool"), Ty("dynamic")}
T1 == T0 \cup { [k |-> "list", e |-> Ty("string")], [k |-> "set", e |-> Ty("number")], [k |-> "map", e |-> Ty("string")],
               [k |-> "tuple", es |-> <<Ty("string"), Ty("number")>>],
               [k |-> "object", as |-> <<[opt |-> FALSE, t |-> Ty("string")], [opt |-> TRUE, t |-> Ty("number")]>>],
               [k |-> "object", as |-> <<[opt |-> TRUE, t |-> Ty("string")], [opt |-> FALSE, t |-> [k |-> "list", e |-> Ty("bool")]]>>],
               [k |-> "list", e |-> [k |-> "object", as |-> <<[opt |-> FALSE, t |-> Ty("string")]>>]] }
C0 == { [k |-> "kw"], [k |-> "ref"], [k |-> "typeDecl"], [k |-> "litval"] } \cup { [k |-> "lit", t |-> t] : t \in T1 } \cup { [k |-> "any", t |-> t] : t \in T1 }
R0 == { [k |-> "kw"], [k |-> "ref"], [k |-> "litval"], [k |-> "lit", t |-> Ty("string")], [k |-> "lit", t |-> [k |-> "list", e |-> Ty("string")]],
        [k |-> "any", t |-> Ty("number")], [k |-> "lit", t |-> [k |-> "map", e |-> Ty("string")]] }
Flags == {TRUE, FALSE}
C1 == { [k |-> kk, e |-> c] : kk \in {"list", "set", "map"}, c \in R0 }
      \cup { [k |-> "tuple", es |-> <<a, b>>] : a, b \in R0 } \cup { [k |-> "tuple", es |-> <<>>] }
      \cup { [k |-> "obj", as |-> <<[req |-> ra, c |-> a], [req |-> rb, c |-> b]>>] : ra, rb \in Flags, a, b \in R0 }
      \cup { [k |-> "obj", as |-> <<>>] }
      \cup { [k |-> "obj", as |-> <<[req |-> f1, c |-> a], [req |-> f2, c |-> b], [req |-> f3, c |-> a], [req |-> f4, c |-> b]>>] :
               f1, f2, f3, f4 \in Flags, a \in {[k |-> "lit", t |-> Ty("string")]}, b \in {[k |-> "lit", t |-> Ty("string")], [k |-> "any", t |-> Ty("number")]} }
      \cup { [k |-> "oneOf", cs |-> <<a, b>>] : a, b \in R0 }
R1 == { [k |-> "map", e |-> [k |-> "lit", t |-> Ty("string")]], [k |-> "list", e |-> [k |-> "ref"]],
        [k |-> "obj", as |-> <<[req |-> FALSE, c |-> [k |-> "lit", t |-> Ty("string")]], [req |-> TRUE, c |-> [k |-> "any", t |-> Ty("number")]]>>],
        [k |-> "obj", as |-> <<[req |-> TRUE, c |-> [k |-> "lit", t |-> [k |-> "map", e |-> Ty("string")]]], [req |-> TRUE, c |-> [k |-> "lit", t |-> Ty("bool")]]>>],
        [k |-> "tuple", es |-> <<[k |-> "lit", t |-> Ty("string")], [k |-> "lit", t |-> Ty("number")]>>] }
C2 == { [k |-> kk, e |-> c] : kk \in {"list", "map"}, c \in R1 }
      \cup { [k |-> "obj", as |-> <<[req |-> ra, c |-> a], [req |-> TRUE, c |-> b], [req |-> rc, c |-> [k |-> "lit", t |-> Ty("string")]]>>] : ra, rc \in Flags, a, b \in R1 }
      \cup { [k |-> "tuple", es |-> <<a, b>>] : a, b \in R1 }
Cons == IF Quick THEN C0 \cup C1 ELSE C0 \cup C1 \cup C2

\* bodies for the label snippet
BA == { [k |-> "kw"], [k |-> "ref"], [k |-> "lit", t |-> Ty("string")], [k |-> "lit", t |-> [k |-> "map", e |-> Ty("string")]], [k |-> "any", t |-> Ty("number")],
        [k |-> "obj", as |-> <<[req |-> TRUE, c |-> [k |-> "lit", t |-> Ty("string")]], [req |-> TRUE, c |-> [k |-> "lit", t |-> Ty("bool")]]>>] }
AttrS == { [req |-> r, c |-> c] : r \in Flags, c \in BA }
AttrSeqs(n) == UNION { [1..m -> AttrS] : m \in 0..n }
Inner == { Nil, [attrs |-> <<>>, blocks |-> <<>>], [attrs |-> <<[req |-> TRUE, c |-> [k |-> "lit", t |-> [k |-> "map", e |-> Ty("string")]]]>>, blocks |-> <<>>],
           [attrs |-> <<[req |-> TRUE, c |-> [k |-> "lit", t |-> Ty("string")]]>>,
            blocks |-> <<[min |-> 1, labels |-> 1, body |-> [attrs |-> <<[req |-> TRUE, c |-> [k |-> "any", t |-> Ty("bool")]]>>, blocks |-> <<>>]]>>] }
BlockS == { [min |-> m, labels |-> nl, body |-> b] : m \in {0, 1}, nl \in {0, 1}, b \in Inner }
BlockSeqs(n) == UNION { [1..m -> BlockS] : m \in 0..n }
Bodies == { [attrs |-> a, blocks |-> b] : a \in AttrSeqs(IF Quick THEN 2 ELSE 3), b \in BlockSeqs(IF Quick THEN 1 ELSE 2) }

Init == IF Mode = "cons" THEN case \in { [mode |-> "cons", cons |-> c, prefill |-> p] : c \in Cons, p \in Flags }
        \* dk = how many of the labels (the first dk) are dependency keys: the block-type snippet visits them all
        ELSE case \in { [mode |-> "body", labels |-> nl, dk |-> dk, body |-> b] : nl \in {1, 2, 3}, dk \in 1..3, b \in Bodies } /\ case.dk <= case.labels
Next == UNCHANGED vars
Spec == Init /\ [][Next]_vars

ECD_OK == case.mode = "cons" => StopsOK(ECD(case.cons, 1, case.prefill).stops)
Label_OK == case.mode = "body" => StopsOK(LabelSnippet(case.labels, case.body))
Block_OK == case.mode = "body" => StopsOK(BlockSnippet(case.labels, case.dk))
OldBlock_OK == case.mode = "body" => StopsOK(OldBlockSnippet(case.labels, case.dk))   \* must be rejected (dk >= 2)
\* sensitivity: the repaired defect (placeholder++ per attribute, not threaded out of nested blocks) must be rejected
RECURSIVE OldReqFields(_, _), OldReqAttrs(_, _, _, _), OldReqBlocks(_, _, _, _)
OldReqAttrs(as, i, ph, acc) == IF i > Len(as) THEN <<acc, ph>> ELSE IF ~as[i].req THEN OldReqAttrs(as, i + 1, ph, acc)
                               ELSE OldReqAttrs(as, i + 1, ph + 1, acc \o ECD(as[i].c, ph, TRUE).stops)
OldReqBlocks(bs, i, ph, acc) == IF i > Len(bs) THEN acc ELSE IF bs[i].min = 0 THEN OldReqBlocks(bs, i + 1, ph, acc)
                                ELSE OldReqBlocks(bs, i + 1, ph + bs[i].labels, acc \o [j \in 1..bs[i].labels |-> ph + j - 1] \o OldReqFields(bs[i].body, ph + bs[i].labels))
OldReqFields(body, ph) == IF body = Nil THEN <<>> ELSE LET a == OldReqAttrs(body.attrs, 1, ph, <<>>) IN OldReqBlocks(body.blocks, 1, a[2], a[1])
Old_OK == case.mode = "body" => StopsOK(<<>> \o OldReqFields(case.body, 2) \o <<0>>)

Emit == PrintT(ToJson(case))
=============================================================================
