SPECIFICATION Spec
CONSTANTS
  N = 4
  Shallow = 2
INVARIANTS FrameInv
CHECK_DEADLOCK FALSE
