SPECIFICATION Spec
CONSTANTS MaxItems = 3
INVARIANTS OnePerItem Isolation
CONSTRAINT Emit
CHECK_DEADLOCK FALSE
