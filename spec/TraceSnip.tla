------------------------------ MODULE TraceSnip ------------------------------
(* Trace validation for Snippet.tla (tab-stops of real snippets) and for the limit / completeness rule of C06. *)
EXTENDS Snippet, Json, IOUtils, TLC
CONSTANT MaxCandidates
Trace == ndJsonDeserialize(IOEnv.TRACE)
VARIABLES l, bad, drift
tvars == <<l, bad, drift>>
Ev == Trace[l]
V(what) == [l |-> l, prop |-> "C06", what |-> what, case |-> Ev.case]
Has(f, x) == x \in DOMAIN f

BadSeqs(ss) == {i \in DOMAIN ss : ~StopsOK(ss[i])}

SnipViol(e) ==
  IF e.mode = "cons" THEN
    (IF e.status # "ok" THEN {V("EmptyCompletionData did not return")} ELSE {})
    \cup (IF ~StopsOK(e.obs.ecd) THEN {V("EmptyCompletionData: tab-stops repeated or not consecutive (" \o e.cons.k \o ")")} ELSE {})
    \cup (IF BadSeqs(e.obs.attr) # {} THEN {V("attribute candidate: tab-stops repeated or not consecutive (" \o e.cons.k \o ")")} ELSE {})
    \cup (IF BadSeqs(e.obs.value) # {} THEN {V("value candidate: tab-stops repeated or not consecutive (" \o e.cons.k \o ")")} ELSE {})
    \cup (IF e.obs.plainbad > 0 THEN {V("tab-stop syntax in the plain-text form")} ELSE {})
  ELSE
    (IF e.status \notin {"ok", "skipped"} THEN {V("label completion did not return")} ELSE {})
    \cup (IF BadSeqs(e.obs.label) # {} THEN {V("label candidate with required fields: tab-stops repeated or not consecutive")} ELSE {})
    \cup (IF Has(e.obs, "block") /\ BadSeqs(e.obs.block) # {} THEN {V("block candidate: tab-stops repeated or not consecutive")} ELSE {})
    \cup (IF e.obs.plainbad > 0 THEN {V("tab-stop syntax in the plain-text form")} ELSE {})

\* model drift (not a verdict): the transcription M disagrees with the code
Drift(e) ==
  IF e.mode = "cons" THEN (IF e.status = "ok" /\ ECD(e.cons, 1, e.prefill).stops # e.obs.ecd THEN 1 ELSE 0)
  ELSE (IF e.status = "ok" /\ Len(e.obs.label) = 1 /\ LabelSnippet(e.labels, e.body) # e.obs.label[1] THEN 1 ELSE 0)

PopViol(e) ==
  (IF e.status # "ok" THEN {V("completion failed in the population sweep (" \o e.source \o ")")} ELSE {})
  \cup (IF e.returned > MaxCandidates THEN {V("more than MaxCandidates candidates (" \o e.source \o ")")} ELSE {})
  \cup (IF e.complete /\ e.returned < e.matching THEN {V("list marked complete although matching candidates were left out (" \o e.source \o ")")} ELSE {})
  \cup (IF e.complete /\ e.hooks THEN {V("list marked complete although a completion hook may add more")} ELSE {})
  \cup (IF e.returned > e.matching THEN {V("candidates that do not match the typed prefix (" \o e.source \o ")")} ELSE {})
  \cup (IF e.dups > 0 THEN {V("duplicate candidates (" \o e.source \o ")")} ELSE {})
  \cup (IF e.matching <= MaxCandidates /\ e.returned < e.matching /\ ~e.hooks THEN {V("matching candidates missing below the limit (" \o e.source \o ")")} ELSE {})

TInit == l = 1 /\ bad = {} /\ drift = 0
Step == /\ l <= Len(Trace) /\ l' = l + 1
        /\ bad' = bad \cup (IF Ev.ev = "Snip" THEN SnipViol(Ev) ELSE IF Ev.ev = "Pop" THEN PopViol(Ev) ELSE {})
        /\ drift' = drift + (IF Ev.ev = "Snip" THEN Drift(Ev) ELSE 0)
Finish == /\ l = Len(Trace) + 1
          /\ JsonSerialize(IOEnv.VOUT, [consumed |-> l - 1, bad |-> bad, drift |-> drift])
          /\ l' = l + 1 /\ UNCHANGED <<bad, drift>>
TNext == Step \/ Finish
TSpec == TInit /\ [][TNext]_tvars
TraceAccepted == TLCGet("stats").diameter = Len(Trace) + 2
=============================================================================
