----------------------------- MODULE TraceOutline -----------------------------
(* Trace validation for Outline.tla: the real symbol trees / workspace answers for replayed documents. *)
EXTENDS Outline, Json, IOUtils
Trace == ndJsonDeserialize(IOEnv.TRACE)
VARIABLES l, bad
tvars == <<l, bad>>
Ev == Trace[l]
V(what) == [l |-> l, prop |-> "C14", what |-> what, case |-> Ev.case, layout |-> Ev.layout]

\* observed symbol: <<name, start, end, kids>> ; expected: [name, ext, kids] ; ext: key -> <<s, e>>
RECURSIVE TreeDiff(_, _, _)
TreeDiff(obs, exp, ext) ==       \* "" when equal, else a description
  IF Len(obs) # Len(exp) THEN "number of symbols differs from the number of items written"
  ELSE LET diffs == { i \in DOMAIN obs :
                        \/ obs[i][1] # exp[i].name
                        \/ ~(exp[i].ext \in DOMAIN ext /\ obs[i][2] = ext[exp[i].ext][1] /\ obs[i][3] = ext[exp[i].ext][2])
                        \/ TreeDiff(obs[i][4], exp[i].kids, ext) # "" } IN
       IF diffs = {} THEN ""
       ELSE LET i == CHOOSE i \in diffs : \A j \in diffs : i <= j IN
            IF obs[i][1] # exp[i].name
            THEN (IF \E j \in DOMAIN exp : exp[j].name = obs[i][1] THEN "symbols are not in source order" ELSE "symbol name is not the attribute name / block type and labels")
            ELSE IF ~(exp[i].ext \in DOMAIN ext /\ obs[i][2] = ext[exp[i].ext][1] /\ obs[i][3] = ext[exp[i].ext][2]) THEN "symbol range is not the item's extent"
            ELSE TreeDiff(obs[i][4], exp[i].kids, ext)

FileViol(e) ==
  IF e.status # "ok" THEN {V("SymbolsInFile failed")}
  ELSE LET d == TreeDiff(e.syms, Symbols(e.doc, ""), e.ext) IN IF d = "" THEN {} ELSE {V(d)}

WsViol(e) ==
  IF e.status # "ok" THEN {V("workspace symbol query failed")}
  ELSE LET exp == { <<x[1], x[2], e.exts[x[1]][x[3]][1], e.exts[x[1]][x[3]][2]>> : x \in WorkspaceQ(e.query, e.paths) }
           obs == { <<e.syms[i][1], e.syms[i][2], e.syms[i][3], e.syms[i][4]>> : i \in DOMAIN e.syms } IN
       (IF exp \ obs # {} THEN {V(IF \E i \in DOMAIN e.paths : ~e.paths[i].readable THEN "workspace query misses a matching top-level symbol (some path unreadable)"
                                  ELSE "workspace query misses a matching top-level symbol")} ELSE {})
       \cup (IF obs \ exp # {} THEN {V("workspace query returns a symbol that does not match the query / is not top-level")} ELSE {})
       \cup (IF Cardinality(obs) # Len(e.syms) THEN {V("workspace query returns a symbol twice")} ELSE {})

TInit == l = 1 /\ bad = {}
Step == /\ l <= Len(Trace) /\ l' = l + 1
        /\ bad' = bad \cup (IF Ev.ev = "Outline" THEN (IF Ev.mode = "file" THEN FileViol(Ev) ELSE WsViol(Ev)) ELSE {})
Finish == /\ l = Len(Trace) + 1
          /\ JsonSerialize(IOEnv.VOUT, [consumed |-> l - 1, bad |-> bad])
          /\ l' = l + 1 /\ UNCHANGED bad
TNext == Step \/ Finish
TSpec == TInit /\ [][TNext]_tvars
TraceAccepted == TLCGet("stats").diameter = Len(Trace) + 2
=============================================================================
