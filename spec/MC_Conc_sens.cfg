SPECIFICATION Spec
CONSTANTS
  Workers = {1, 2}
  SharedNodes = {"s1"}
  Queries = 1
  AllowSharedWrite = TRUE
INVARIANTS NoSharedWrite
VIEW View
CHECK_DEADLOCK FALSE
