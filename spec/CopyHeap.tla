------------------------------ MODULE CopyHeap ------------------------------
(***************************************************************************)
(* C17: Copy() on schema values, as a heap model.                          *)
(*                                                                         *)
(* A heap is a sequence of nodes in DFS pre-order of the value's mutable   *)
(* containers (pointers to schema structs, maps, slices of schema nodes);  *)
(* node = <<kind, scalar digest, kids>>, kids = indices of child nodes.    *)
(* Identities (addresses) are a parallel sequence.  Constraints, addresses *)
(* and cty values are immutable and belong to the scalar content.          *)
(*                                                                         *)
(* P:  Iso(orig, copy)       same shape, same scalars, in every field      *)
(*     Disjoint(orig, copy)  no container identity in common               *)
(*     Frame                 mutating one side leaves the other unchanged  *)
(* M:  Copy(h) allocates a fresh identity per node; ShallowAt(h, i) is the *)
(*     named deviation (node i of the copy is the original's).             *)
(***************************************************************************)
EXTENDS Integers, Sequences, FiniteSets

Iso(oshape, cshape) == oshape = cshape
Disjoint(oids, cids) == \A i \in DOMAIN oids : \A j \in DOMAIN cids : oids[i] # cids[j]

\* M: a deep copy keeps the shape and allocates identities above everything in use
Fresh(ids, k) == [i \in DOMAIN ids |-> k + i]
MaxId(ids) == IF ids = <<>> THEN 0 ELSE CHOOSE m \in {ids[i] : i \in DOMAIN ids} : \A i \in DOMAIN ids : ids[i] <= m
CopyIds(ids) == Fresh(ids, MaxId(ids))
ShallowAt(ids, i) == [CopyIds(ids) EXCEPT ![i] = ids[i]]

\* mutation of node n of a heap given as [shape, ids, content : id -> version]:
\* bumps the version stored under that identity; a side "sees" the versions of its identities
See(ids, content) == [i \in DOMAIN ids |-> content[ids[i]]]
=============================================================================
