SPECIFICATION Spec
CONSTANTS
  Quick = TRUE
  MaxItems = 2
  EmitEvery = 1
INVARIANTS ImplIsSpec AcceptSafeInv UnknownQuiet NoDupOffer
CONSTRAINT Emit
CHECK_DEADLOCK FALSE
