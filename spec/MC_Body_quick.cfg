SPECIFICATION Spec
CONSTANTS
  Mode = "body"
  Quick = TRUE
  MaxItems = 2
  EmitEvery = 1
INVARIANTS ImplIsSpec AcceptSafeInv UnknownQuiet NoDupOffer DepAgree
CONSTRAINT Emit
CHECK_DEADLOCK FALSE
