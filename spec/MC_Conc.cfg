SPECIFICATION Spec
CONSTANTS
  Workers = {1, 2, 3}
  SharedNodes = {"s1", "s2"}
  Queries = 2
  AllowSharedWrite = FALSE
INVARIANTS NoSharedWrite RaceFree ResultEqualsSequential
VIEW View
CHECK_DEADLOCK FALSE
