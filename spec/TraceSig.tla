------------------------------- MODULE TraceSig -------------------------------
(* Trace validation for Signature.tla: what the real SignatureAtPos answered for a replayed (tree, location). *)
EXTENDS Signature, Json, IOUtils, TLC
Trace == ndJsonDeserialize(IOEnv.TRACE)
VARIABLES l, bad
tvars == <<l, bad>>
Ev == Trace[l]
V(what) == [l |-> l, prop |-> "C20", what |-> what, case |-> Ev.case, layout |-> Ev.layout]

Obs(e) == IF e.obs.k = "none" THEN None ELSE [k |-> "sig", fn |-> e.obs.fn, params |-> e.obs.params, active |-> e.obs.active]

SigViol(e) ==
  LET r == Obs(e) al == Allowed(e.tree, e.loc) IN
  IF e.status = "panic" THEN {V("SignatureAtPos panicked")}
  ELSE IF ~ValidSig(r) THEN {V("active parameter is not a valid index")}
  ELSE IF r \in al THEN {}
  ELSE IF r = None THEN {V("no signature although the cursor is inside the parentheses of a known call (" \o e.loc.kind \o ")")}
  ELSE IF None \in al /\ Cardinality(al) = 1 THEN {V("signature returned where none is admitted (" \o e.loc.kind \o ")")}
  ELSE IF \E a \in al : a # None /\ a.fn = r.fn /\ a.params = r.params THEN {V("wrong active parameter (" \o e.loc.kind \o ")")}
  ELSE IF \E a \in al : a # None /\ a.fn = r.fn THEN {V("wrong parameter list")}
  ELSE {V("signature of a call that is not the innermost enclosing known call (" \o e.loc.kind \o ")")}

TInit == l = 1 /\ bad = {}
Step == /\ l <= Len(Trace) /\ l' = l + 1
        /\ bad' = bad \cup (IF Ev.ev = "Sig" THEN SigViol(Ev) ELSE {})
Finish == /\ l = Len(Trace) + 1
          /\ JsonSerialize(IOEnv.VOUT, [consumed |-> l - 1, bad |-> bad])
          /\ l' = l + 1 /\ UNCHANGED bad
TNext == Step \/ Finish
TSpec == TInit /\ [][TNext]_tvars
TraceAccepted == TLCGet("stats").diameter = Len(Trace) + 2
=============================================================================
