SPECIFICATION Spec
CONSTANTS
  MaxRootArgs = 3
INVARIANTS ImplAllowed AllowedValid
CONSTRAINT Emit
CHECK_DEADLOCK FALSE
