----------------------------- MODULE TraceTargets -----------------------------
(* Trace validation for Targets.tla: exact top-level targets of replayed cases, structural predicates on every target tree. *)
EXTENDS Targets, Json, IOUtils
Trace == ndJsonDeserialize(IOEnv.TRACE)
VARIABLES l, bad
tvars == <<l, bad>>
Ev == Trace[l]
V(what) == [l |-> l, prop |-> "C09", what |-> what, case |-> Ev.case, layout |-> Ev.layout]

RECURSIVE PKey(_)
PKey(p) == IF p = <<>> THEN "" ELSE IF Len(p) = 1 THEN ToString(p[1]) ELSE ToString(p[1]) \o "." \o PKey(Tail(p))

\* ---- exact top-level targets -------------------------------------------------------------
TopViol(e) ==
  LET exp == TargetsP(e.schema, e.doc, <<>>)
      key(t) == IF t.def = "value" THEN <<t.addr, t.local, t.scope, e.extn[PKey(t.rng)].value, <<>> >>    \* the written reference; no definition range
                ELSE <<t.addr, t.local, t.scope, e.extn[PKey(t.rng)].full, IF t.def = "header" THEN e.extn[PKey(t.rng)].header ELSE e.extn[PKey(t.rng)].name>>
      ekeys == { <<key(t), t.typ>> : t \in exp }
      okeys == { << <<e.top[i][1], e.top[i][2], e.top[i][3], e.top[i][5], e.top[i][6]>>, e.top[i][4] >> : i \in DOMAIN e.top }
      missing == { x \in ekeys : ~\E y \in okeys : y[1] = x[1] /\ (x[2] = "?" \/ y[2] = x[2]) }
      extra == { y \in okeys : ~\E x \in ekeys : y[1] = x[1] /\ (x[2] = "?" \/ y[2] = x[2]) }
  IN
  IF e.status = "skipped" THEN {}
  ELSE IF e.status # "ok" THEN {V("CollectReferenceTargets failed: " \o e.status)}
  ELSE (IF missing # {} THEN LET m == CHOOSE m \in missing : TRUE IN
          {V(IF \E y \in okeys : y[1][1] = m[1][1] /\ y[1][2] = m[1][2] /\ y[1][3] = m[1][3] /\ y[1] # m[1] THEN "target range / definition range is not the declaration's extent / header"
             ELSE IF \E y \in okeys : y[1] = m[1] THEN "target has a type other than the declared / inferred one (expected " \o m[2] \o ")"
             ELSE "no target for a declaration the schema marks addressable")} ELSE {})
       \cup (IF extra # {} /\ missing = {} THEN {V("target for something that is not an addressable declaration")} ELSE {})
       \cup (IF Len(e.top) # Cardinality({e.top[i] : i \in DOMAIN e.top}) THEN {V("the same target is collected twice")} ELSE {})

\* ---- structural predicates on nested targets (any world) ------------------------------------
\* node: <<parent, addr (Seq(<<kind, value>>)), rng, def, written text of the definition range, file, type>>
\* (a parent without range, or with an empty one - the collective target of several blocks - constrains nothing)
Inside(c, p) == c = <<>> \/ p = <<>> \/ p[1] = p[2] \/ (p[1] <= c[1] /\ c[2] <= p[2])
TreeViol(e) ==
  LET t == e.tree
      kids(p) == {i \in DOMAIN t : t[i][1] = p}
      oneStep == { i \in DOMAIN t : t[i][1] # 0 /\ ~(Len(t[i][2]) = Len(t[t[i][1]][2]) + 1 /\ SubSeq(t[i][2], 1, Len(t[t[i][1]][2])) = t[t[i][1]][2]) }
      last(i) == t[i][2][Len(t[i][2])]
      \* list elements: the index is the position in source order among the indexed siblings that are written
      idxKids(p) == {i \in kids(p) : last(i)[1] = "idx" /\ t[i][3] # <<>> /\ t[i][3][1] < t[i][3][2]}
      badIdx == { i \in DOMAIN t : t[i][1] # 0 /\ i \in idxKids(t[i][1]) /\
                    last(i)[2] # Cardinality({j \in idxKids(t[i][1]) : t[j][3][1] < t[i][3][1]}) }
      \* map keys / object attributes: the step is the key as written (when the definition range is the key)
      badKey == { i \in DOMAIN t : t[i][1] # 0 /\ last(i)[1] \in {"key", "attr"} /\ t[i][4] # <<>> /\ t[i][5] # "" /\ t[t[i][1]][4] # t[i][4]
                    /\ t[i][4][2] - t[i][4][1] <= Len(last(i)[2]) + 2 /\ t[i][5] # last(i)[2] }
      outside == { i \in DOMAIN t : t[i][1] # 0 /\ t[i][3] # <<>> /\ t[i][3][1] < t[i][3][2] /\ t[i][6] = t[t[i][1]][6] /\ ~Inside(t[i][3], t[t[i][1]][3]) }
  IN (IF e.status = "panic" THEN {V("CollectReferenceTargets panicked")} ELSE {})
     \cup (IF oneStep # {} THEN {V("nested target does not extend its parent's address by exactly one step")} ELSE {})
     \cup (IF badIdx # {} THEN {V("list element target whose index is not its position in source order")} ELSE {})
     \cup (IF badKey # {} THEN {V("nested target whose key step is not the key as written")} ELSE {})
     \cup (IF outside # {} THEN {V("element of a written value lies outside the range of its parent declaration")} ELSE {})

TInit == l = 1 /\ bad = {}
Step == /\ l <= Len(Trace) /\ l' = l + 1
        /\ bad' = bad \cup (IF Ev.ev = "Targets" THEN TopViol(Ev) \cup (IF Ev.status = "ok" THEN TreeViol(Ev) ELSE {})
                            ELSE IF Ev.ev = "TargetTree" THEN TreeViol(Ev) ELSE {})
Finish == /\ l = Len(Trace) + 1
          /\ JsonSerialize(IOEnv.VOUT, [consumed |-> l - 1, bad |-> bad])
          /\ l' = l + 1 /\ UNCHANGED bad
TNext == Step \/ Finish
TSpec == TInit /\ [][TNext]_tvars
TraceAccepted == TLCGet("stats").diameter = Len(Trace) + 2
=============================================================================
