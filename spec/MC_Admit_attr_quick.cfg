SPECIFICATION Spec
CONSTANTS
  Mode = "attr"
  EmitEvery = 8
INVARIANTS AcceptedShape
CONSTRAINT Emit
CHECK_DEADLOCK FALSE
