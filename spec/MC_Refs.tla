------------------------------ MODULE MC_Refs ------------------------------
(* Small universes of targets and origins: a block r.a (body-as-data target with its as-reference twin), an       *)
(* attribute r.a.x, a list-typed nested block r.a.l with a definition-less collective target and two elements.    *)
EXTENDS Refs, Json
VARIABLES ts, os
vars == <<ts, os>>
Types == {"none", "str", "num", "dyn"}
T(addr, typ, rng, def, nested) == [addr |-> addr, typ |-> typ, rng |-> rng, def |-> def, nested |-> nested]

Worlds ==
  { << T(<<"r", "a">>, "none", <<0, 100>>, <<0, 8>>, <<>>),
       T(<<"r", "a">>, bt, <<0, 100>>, <<0, 8>>,
         << T(<<"r", "a", "x">>, xt, <<10, 20>>, <<10, 11>>, <<>>),
            T(<<"r", "a", "l">>, lt, <<30, 90>>, NoRng,
              << T(<<"r", "a", "l", "0">>, "dyn", <<30, 60>>, <<30, 31>>, << T(<<"r", "a", "l", "0", "y">>, yt, <<40, 50>>, <<40, 41>>, <<>>) >>),
                 T(<<"r", "a", "l", "1">>, "dyn", <<61, 90>>, <<61, 62>>, <<>>) >>) >>) >>
    : bt \in {"dyn"}, xt \in Types \ {"none"}, lt \in {"dyn", "none"}, yt \in {"str", "dyn"} }
Addrs == { <<"r", "a">>, <<"r", "a", "x">>, <<"r", "a", "l">>, <<"r", "a", "l", "0">>, <<"r", "a", "l", "0", "y">>, <<"r", "a", "l", "1">>, <<"r", "b">> }
\* (all targets are in scope "s"; constrained origins ask for scope "s" or for another scope "q")
Origins == { [addr |-> a, rng |-> <<200 + i, 205 + i>>, cons |-> c, scope |-> "s"] : a \in Addrs, i \in {0}, c \in {{}, {"str"}, {"dyn"}} }
           \cup { [addr |-> a, rng |-> <<210, 215>>, cons |-> c, scope |-> "q"] : a \in Addrs, c \in {{"str"}, {"dyn"}} }
\* (built directly: SUBSET Origins has 2^35 elements)
Init == ts \in Worlds /\ os \in { {a, b} : a, b \in Origins }
Next == UNCHANGED vars
Spec == Init /\ [][Next]_vars
ImplIsSpecInv == ImplIsSpec(ts, os)
AtDef == InverseAtDef(ts, os)
Strict == InverseStrict(ts, os)
SeqOf(S) == CHOOSE q \in [1..Cardinality(S) -> S] : \A x \in S : \E i \in DOMAIN q : q[i] = x
Emit == PrintT(ToJson([ts |-> ts, os |-> SeqOf(os)]))
=============================================================================
