SPECIFICATION Spec
CONSTANTS
  MaxLines = 2
  MaxCells = 2
INVARIANTS PosUnique ExactIsWF NoOtherPos ShiftSound LenAdditive AppendSound BlankSound
CHECK_DEADLOCK FALSE
