SPECIFICATION Spec
CONSTANTS
  Quick = FALSE
  MaxItems = 2
  EmitEvery = 40
INVARIANTS ImplIsSpec AcceptSafeInv UnknownQuiet NoDupOffer
CONSTRAINT Emit
CHECK_DEADLOCK FALSE
