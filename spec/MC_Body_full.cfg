SPECIFICATION Spec
CONSTANTS
  Mode = "body"
  Quick = FALSE
  MaxItems = 2
  EmitEvery = 40
INVARIANTS ImplIsSpec AcceptSafeInv UnknownQuiet NoDupOffer DepAgree
CONSTRAINT Emit
CHECK_DEADLOCK FALSE
