SPECIFICATION Spec
CONSTANTS K = 6
CONSTRAINT Emit
CHECK_DEADLOCK FALSE
