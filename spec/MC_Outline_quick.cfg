SPECIFICATION Spec
CONSTANTS MaxItems = 2
INVARIANTS OnePerItem Isolation
CONSTRAINT Emit
CHECK_DEADLOCK FALSE
