SPECIFICATION Spec
CONSTANTS
  Mode = "attr"
  EmitEvery = 1
INVARIANTS AcceptedShape
CONSTRAINT Emit
CHECK_DEADLOCK FALSE
