------------------------------ MODULE MC_Keys ------------------------------
(***************************************************************************)
(* C16, canonical schema keys: every listing (order in which the schema    *)
(* author writes them) of every set of dependency keys.  P: the key is the *)
(* pair of SETS.  M: schema.DependencyKeys.MarshalJSON sorts labels by     *)
(* index and attributes by name.  TLC checks M = canonical form of P for   *)
(* every listing and prints the listings; the harness calls the real       *)
(* schema.NewSchemaKey on each and TraceBody's memo rule decides           *)
(* "same set <=> same key".                                                *)
(***************************************************************************)
EXTENDS Integers, Sequences, FiniteSets, SequencesExt, Json, TLC

CONSTANTS Quick
VARIABLES ls, as
vars == <<ls, as>>

LabelPairs == {0, 1, 2} \X {"a", "b"}
AttrVals == IF Quick THEN { [k |-> "str", v |-> "a"], [k |-> "num", v |-> 1], [k |-> "ref", v |-> "x.y"] }
            ELSE { [k |-> "str", v |-> "a"], [k |-> "str", v |-> "b"], [k |-> "num", v |-> 1], [k |-> "bool", v |-> TRUE], [k |-> "ref", v |-> "x.y"] }
AttrPairs == {"p", "q", "r"} \X AttrVals

\* listings: sequences without two entries for the same label index / attribute name
Listings(S) == { q \in UNION { [1..n -> S] : n \in 0..3 } : \A i, j \in DOMAIN q : q[i][1] = q[j][1] => i = j }

Init == ls \in Listings(LabelPairs) /\ as \in Listings(AttrPairs)
Next == UNCHANGED vars
Spec == Init /\ [][Next]_vars

\* M: stable sort by index / name
SortedBy(q, lt(_, _)) == SortSeq(q, lt)
KeyM == << SortedBy(ls, LAMBDA x, y : x[1] < y[1]), SortedBy(as, LAMBDA x, y : \E i, j \in 1..3 : <<"p", "q", "r">>[i] = x[1] /\ <<"p", "q", "r">>[j] = y[1] /\ i < j) >>
\* P: the pair of sets; canonical sequence form of a set
KeyP == << ToSet(ls), ToSet(as) >>
Canon == << SetToSortSeq(ToSet(ls), LAMBDA x, y : x[1] < y[1]),
            SetToSortSeq(ToSet(as), LAMBDA x, y : \E i, j \in 1..3 : <<"p", "q", "r">>[i] = x[1] /\ <<"p", "q", "r">>[j] = y[1] /\ i < j) >>
MIsCanonical == KeyM = Canon

Emit == PrintT(ToJson([ls |-> ls, as |-> as]))
=============================================================================
