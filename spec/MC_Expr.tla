------------------------------ MODULE MC_Expr ------------------------------
(***************************************************************************)
(* Universe of (constraint, well-typed expression, self-reference setting) *)
(* cases for ExprRules.  The declarations the references may point at are  *)
(* fixed (block `loc` with s, n, b, l, o, m).  TLC checks structural       *)
(* sanity of the reference operators on every case and prints the cases.   *)
(***************************************************************************)
EXTENDS ExprRules, Json
CONSTANTS D         \* expression depth
VARIABLES case
vars == <<case>>

St(k, v) == [k |-> k, v |-> v]
Ref(steps) == [k |-> "ref", steps |-> steps]
R2(a, b) == Ref(<<St("root", a), St("attr", b)>>)
Lit(t, v) == [k |-> "lit", t |-> t, v |-> v]
Call(f, as) == [k |-> "call", fn |-> f, es |-> as]
Tmpl(ps) == [k |-> "tmpl", es |-> ps]
Text(v) == [k |-> "text", v |-> v]
Bin(op, l, r) == [k |-> "bin", op |-> op, l |-> l, r |-> r]
Un(op, e) == [k |-> "un", op |-> op, e |-> e]
Cond(c, t, f) == [k |-> "cond", c |-> c, tt |-> t, ff |-> f]
Paren(e) == [k |-> "paren", e |-> e]
Index(e, key) == [k |-> "index", e |-> e, key |-> key]
List(es) == [k |-> "list", es |-> es]
Obj(items) == [k |-> "obj", items |-> items]
It(key, val) == [key |-> key, val |-> val]
IdK(v) == [k |-> "id", v |-> v]
StrK(v) == [k |-> "str", v |-> v]
For(coll, body) == [k |-> "for", coll |-> coll, body |-> body]
Splat(e, key) == [k |-> "splat", e |-> e, key |-> key]

LocS == R2("loc", "s")  LocN == R2("loc", "n")  LocB == R2("loc", "b")  LocL == R2("loc", "l")  LocO == R2("loc", "o")  LocM == R2("loc", "m")
LocOK == Ref(<<St("root", "loc"), St("attr", "o"), St("attr", "k")>>)
LocL0 == Ref(<<St("root", "loc"), St("attr", "l"), St("idx", 0)>>)
LocLeg == Ref(<<St("root", "loc"), St("attr", "l"), St("legacy", 1)>>)
LocMA == Ref(<<St("root", "loc"), St("attr", "m"), St("attr", "a")>>)
LocSplat == Ref(<<St("root", "loc"), St("attr", "l"), St("splat", 0)>>)
Unk == R2("zz", "q")
SelfX == R2("self", "sx")
SelfSa == R2("self", "sa")
SelfPw == Ref(<<St("root", "self"), St("attr", "part"), St("idx", 0), St("attr", "pw")>>)
SelfPh == Ref(<<St("root", "self"), St("attr", "part"), St("idx", 1), St("attr", "ph")>>)
BSa == R2("b", "sa")
BPw == Ref(<<St("root", "b"), St("attr", "part"), St("idx", 0), St("attr", "pw")>>)
IterX == Ref(<<St("root", "x")>>)

RECURSIVE StrE(_), NumE(_), BoolE(_)
StrE(d) ==
  LET base == {Lit("string", "x"), LocS, LocOK, LocL0, LocLeg, LocMA, Unk, SelfX, SelfSa, BSa} IN
  IF d = 0 THEN base
  ELSE LET prev == StrE(d - 1) small == {Lit("string", "x"), LocS, Unk} IN
       base \cup {Tmpl(<<Text("a-"), e>>) : e \in prev} \cup {Tmpl(<<e, Text("-"), LocS>>) : e \in small}
            \cup {Call("upper", <<e>>) : e \in prev} \cup {Call("nofn", <<e>>) : e \in small}
            \cup {Cond(c, a, b) : c \in {Lit("bool", "true"), LocB}, a \in small, b \in {Lit("string", "y"), LocOK}}
            \cup {Paren(e) : e \in prev} \cup {Index(LocL, n) : n \in NumE(d - 1) \ {Lit("number", "1")}}   \* (a literal key is an index step of the traversal itself)
            \cup {Call("join", <<Lit("string", ","), LocL, List(<<e>>)>>) : e \in small}
NumE(d) ==
  LET base == {Lit("number", "1"), LocN, SelfPw, SelfPh, BPw} IN
  IF d = 0 THEN base
  ELSE base \cup {Bin("+", a, b) : a \in NumE(d - 1), b \in base} \cup {Un("-", a) : a \in NumE(d - 1)} \cup {Call("max", <<a, b>>) : a \in base, b \in NumE(d - 1)}
BoolE(d) ==
  LET base == {Lit("bool", "true"), LocB} IN
  IF d = 0 THEN base
  ELSE base \cup {Bin("==", a, b) : a \in {LocS, Lit("string", "x")}, b \in {LocOK, Unk}} \cup {Un("!", a) : a \in BoolE(d - 1)}
            \cup {Bin("&&", a, b) : a \in base, b \in BoolE(d - 1)} \cup {Bin(">", a, b) : a \in {LocN}, b \in NumE(d - 1)}

ListE(d) == {LocL, List(<<>>)} \cup (IF d = 0 THEN {} ELSE {List(<<a, b>>) : a \in StrE(d - 1), b \in {Lit("string", "z"), LocS}}
                                                     \cup {For(LocL, Call("upper", <<IterX>>)), For(List(<<LocS, LocS>>), Lit("string", "c")), Call("tolist", <<LocL>>)}
                                                     \cup {List(<<LocS, Unk, LocS>>)})
MapE(d) == {LocM} \cup (IF d = 0 THEN {} ELSE {Obj(<<It(IdK("a"), e), It(StrK("b c"), LocS)>>) : e \in StrE(d - 1)}
                                               \cup {Obj(<<It(Paren(LocS).e, Lit("string", "v")), It(IdK("k"), Unk)>>)})
ObjE(d) == {LocO} \cup (IF d = 0 THEN {} ELSE {Obj(<<It(IdK("k"), e), It(IdK("n"), n)>>) : e \in StrE(d - 1), n \in {Lit("number", "2"), LocN}})
TupE(d) == IF d = 0 THEN {} ELSE {List(<<e, n>>) : e \in StrE(d - 1), n \in {Lit("number", "2"), LocN}}

\* type declarations
TP(v) == [k |-> "tprim", v |-> v]
TColl(fn, e) == [k |-> "tcoll", fn |-> fn, e |-> e]
TObj(items) == [k |-> "tobj", items |-> items]
TTup(es) == [k |-> "ttup", es |-> es]
RECURSIVE TypeE(_)
TypeE(d) ==
  LET base == {TP("string"), TP("number"), TP("bool"), TP("any"), [k |-> "tbad", v |-> "strng"]} IN
  IF d = 0 THEN base
  ELSE LET prev == TypeE(d - 1) small == {TP("string"), TP("number")} IN
       base \cup {TColl(fn, e) : fn \in {"list", "set", "map"}, e \in prev}
            \cup {TObj(<<It(IdK("a"), e), It(IdK("b"), x)>>) : e \in prev, x \in small \cup {[k |-> "topt", e |-> TP("number")]}}
            \cup {TObj(<<>>)} \cup {TTup(<<e, x>>) : e \in prev, x \in small} \cup {TTup(<<>>)}

AnyC(t) == [k |-> "any", t |-> t]
CRef == [k |-> "ref"]
CLit(t) == [k |-> "lit", t |-> t]

Pairs ==
  { <<AnyC("string"), e>> : e \in StrE(D) } \cup { <<AnyC("number"), e>> : e \in NumE(D) } \cup { <<AnyC("bool"), e>> : e \in BoolE(D) }
  \cup { <<AnyC("list"), e>> : e \in ListE(D) } \cup { <<AnyC("set"), e>> : e \in ListE(1) } \cup { <<AnyC("map"), e>> : e \in MapE(D) }
  \cup { <<AnyC("object"), e>> : e \in ObjE(IF D > 1 THEN 1 ELSE D) } \cup { <<AnyC("tuple"), e>> : e \in TupE(1) }
  \cup { <<AnyC("dynamic"), e>> : e \in StrE(1) \cup ListE(1) \cup ObjE(1) }
  \* operators under operators, at every depth setting: the operands of a comparison are numbers although its result is a bool
  \cup { <<AnyC("bool"), e>> : e \in { Bin(">", Bin("+", LocN, Lit("number", "1")), LocN), Bin("==", Un("-", LocN), SelfPw),
                                      Bin("&&", Bin(">", LocN, Un("-", LocN)), Un("!", LocB)), Bin("!=", Bin("+", LocN, LocN), Lit("number", "2")) } }
  \cup { <<AnyC("string"), Cond(Bin(">", Bin("+", LocN, Lit("number", "1")), LocN), LocS, Lit("string", "y"))>>,
         <<AnyC("number"), Cond(Bin("==", LocS, LocOK), Bin("+", LocN, Lit("number", "1")), Un("-", LocN))>>,
         <<AnyC("number"), Cond(Un("!", LocB), Lit("number", "10"), Call("max", <<LocN, Lit("number", "2")>>))>> }
  \* a full splat followed by a computed key (alone, in a template, in a list, as an argument)
  \cup { <<AnyC("dynamic"), Splat(LocL, k)>> : k \in {LocN, Bin("+", LocN, Lit("number", "1")), Call("max", <<LocN, SelfPw>>), Unk} }
  \cup { <<AnyC("string"), Tmpl(<<Text("a-"), Splat(LocL, LocN)>>)>>, <<AnyC("list"), List(<<LocS, Splat(LocL, SelfPw)>>)>>,
         <<AnyC("string"), Call("upper", <<Splat(LocM, LocS)>>)>> }
  \* a map whose elements are not strings: static and computed keys side by side
  \cup { <<AnyC("maplist"), Obj(<<It(IdK("a"), List(<<Lit("string", "c"), e>>)), It(LocS, List(<<Lit("string", "d"), Lit("string", "e")>>))>>)>> : e \in {LocS, Unk, Lit("string", "x")} }
  \cup { <<AnyC("maplist"), Obj(<<It(Lit("string", "q"), List(<<LocS>>)), It(StrK("b c"), List(<<>>))>>)>> }
  \cup { <<CRef, e>> : e \in StrE(1) }
  \cup { <<[k |-> "list", e |-> CRef], e>> : e \in {List(<<LocS, Lit("string", "x"), Unk>>), List(<<LocS, LocS>>), LocL, List(<<>>)} }
  \cup { <<[k |-> "set", e |-> [k |-> "oneOf", cs |-> <<CRef, CRef>>]], e>> : e \in {List(<<LocS, Unk, LocS>>), List(<<SelfX, LocN>>)} }
  \cup { <<[k |-> "oneOf", cs |-> <<AnyC("list"), AnyC("set")>>], e>> : e \in {List(<<LocS, Unk, LocS>>), LocL, For(List(<<LocS, LocS>>), Lit("string", "c"))} }
  \cup { <<[k |-> "tuple", es |-> <<CRef, CLit("string")>>], e>> : e \in {List(<<LocS, LocS, LocS>>), List(<<Lit("string", "q"), Lit("string", "r")>>)} }
  \cup { <<[k |-> "map", e |-> AnyC("string")], e>> : e \in MapE(1) }
  \cup { <<[k |-> "obj", as |-> [x |-> AnyC("string"), y |-> CLit("number")]], Obj(<<It(IdK("x"), e), It(IdK("y"), LocN), It(IdK("z"), LocS)>>)>> : e \in StrE(1) }
  \cup { <<[k |-> "obj", as |-> [x |-> AnyC("string"), y |-> CLit("number")]], Obj(<<It(IdK("x"), Lit("string", "p")), It(LocS, Lit("string", "q")), It(IdK("y"), Lit("number", "2"))>>)>> }
  \cup { <<CLit("string"), e>> : e \in StrE(1) }
  \cup { <<[k |-> "kw"], e>> : e \in {[k |-> "kw", v |-> "kw"], LocS} }
  \cup { <<[k |-> "typeDecl"], e>> : e \in {[k |-> "type", v |-> "string"], [k |-> "type", v |-> "list(string)"], LocS} }
  \cup { <<[k |-> "typeDecl"], e>> : e \in TypeE(IF D > 2 THEN 2 ELSE D) }

RECURSIVE HasSelf(_)
HasSelf(e) == CASE e.k = "ref" -> IsSelf(e)
                [] e.k \in {"list", "tmpl", "call"} -> \E i \in DOMAIN e.es : HasSelf(e.es[i])
                [] e.k = "obj" -> \E i \in DOMAIN e.items : HasSelf(e.items[i].val) \/ (e.items[i].key.k \notin {"id", "str"} /\ HasSelf(e.items[i].key))
                [] e.k = "bin" -> HasSelf(e.l) \/ HasSelf(e.r)
                [] e.k \in {"un", "paren"} -> HasSelf(e.e)
                [] e.k = "cond" -> HasSelf(e.c) \/ HasSelf(e.tt) \/ HasSelf(e.ff)
                [] e.k \in {"index", "splat"} -> HasSelf(e.e) \/ HasSelf(e.key)
                [] e.k = "for" -> HasSelf(e.coll) \/ HasSelf(e.body)
                [] OTHER -> FALSE

\* where the attribute sits: level 0 = root body, 1 = in block b, 2 = in block b.in; flags[i+1] = self references enabled at level i
RECURSIVE HasB(_)
HasB(e) == CASE e.k = "ref" -> e.steps[1].v = "b"
             [] e.k \in {"list", "tmpl", "call"} -> \E i \in DOMAIN e.es : HasB(e.es[i])
             [] e.k = "obj" -> \E i \in DOMAIN e.items : HasB(e.items[i].val)
             [] e.k = "bin" -> HasB(e.l) \/ HasB(e.r)
             [] e.k \in {"un", "paren"} -> HasB(e.e)
             [] e.k = "cond" -> HasB(e.c) \/ HasB(e.tt) \/ HasB(e.ff)
             [] e.k \in {"index", "splat"} -> HasB(e.e) \/ HasB(e.key)
             [] e.k = "for" -> HasB(e.coll) \/ HasB(e.body)
             [] OTHER -> FALSE

Places(e) == IF HasB(e) /\ ~HasSelf(e) THEN { [level |-> 0, flags |-> <<FALSE, FALSE, FALSE>>], [level |-> 1, flags |-> <<FALSE, FALSE, FALSE>>] }
             ELSE IF HasSelf(e) THEN { [level |-> 0, flags |-> <<TRUE, FALSE, FALSE>>], [level |-> 0, flags |-> <<FALSE, FALSE, FALSE>>],
                                   [level |-> 1, flags |-> <<FALSE, TRUE, FALSE>>], [level |-> 2, flags |-> <<FALSE, TRUE, FALSE>>],
                                   [level |-> 2, flags |-> <<FALSE, FALSE, TRUE>>], [level |-> 1, flags |-> <<TRUE, FALSE, TRUE>>] }
             ELSE { [level |-> 0, flags |-> <<FALSE, FALSE, FALSE>>] }

Init == \E p \in Pairs : \E pl \in Places(p[2]) : case = [cons |-> p[1], expr |-> p[2], level |-> pl.level, flags |-> pl.flags]
Next == UNCHANGED vars
Spec == Init /\ [][Next]_vars

SelfOn == [on |-> case.flags[case.level + 1], level |-> case.level]
\* sanity of the reference operators: leaves have distinct paths; nothing under literal-only constraints
DistinctPaths == LET o == OriginsP(case.cons, case.expr, "", SelfOn) IN \A a, b \in o : a.path = b.path => a = b
NoSelfWhenOff == ~SelfOn.on => \A a \in OriginsP(case.cons, case.expr, "", SelfOn) : a.addr[1].v # "self"
LiteralQuiet == case.cons.k \in {"lit", "litval", "kw", "typeDecl"} => OriginsP(case.cons, case.expr, "", SelfOn) = {}

Emit == PrintT(ToJson(case))
=============================================================================
