SPECIFICATION TSpec
CONSTANTS
  MaxCandidates = 100
  TokenTypes = {"hcl-attrName", "hcl-blockType", "hcl-blockLabel", "hcl-bool", "hcl-string", "hcl-number", "hcl-objectKey", "hcl-mapKey", "hcl-keyword", "hcl-referenceStep", "hcl-typeComplex", "hcl-typePrimitive", "hcl-functionName"}
POSTCONDITION TraceAccepted
CHECK_DEADLOCK FALSE
