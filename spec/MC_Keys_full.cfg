SPECIFICATION Spec
CONSTANTS
  Quick = FALSE
INVARIANT MIsCanonical
CONSTRAINT Emit
CHECK_DEADLOCK FALSE
