-------------------------------- MODULE Text --------------------------------
(***************************************************************************)
(* The specification's own model of a text buffer, independent of HCL's    *)
(* scanner.  A buffer is a non-empty sequence of lines; a line is a        *)
(* sequence of cells; a cell is the byte width of one grapheme cluster,    *)
(* with 0 standing for a one-byte blank (space / tab).  Consecutive lines  *)
(* are separated by a one-byte newline.                                    *)
(*                                                                         *)
(* A position is <<byte, line, column>>, columns count grapheme clusters   *)
(* from 1 (hcl.Pos).  A range is <<file, sb, sl, sc, eb, el, ec>>.         *)
(***************************************************************************)
EXTENDS Integers, Sequences, FiniteSets

W(c) == IF c = 0 THEN 1 ELSE c

RECURSIVE SumW(_, _)
SumW(line, k) == IF k <= 0 THEN 0 ELSE SumW(line, k - 1) + W(line[k])

LineBytes(line) == SumW(line, Len(line))

RECURSIVE StartsFrom(_, _, _, _)
StartsFrom(buf, l, off, acc) ==
  IF l > Len(buf) THEN acc
  ELSE StartsFrom(buf, l + 1, off + LineBytes(buf[l]) + 1, Append(acc, off))

\* LineStarts(buf)[l] = byte offset of the first byte of line l
LineStarts(buf) == StartsFrom(buf, 1, 0, <<>>)

BufLen(buf) == LET st == LineStarts(buf) IN st[Len(buf)] + LineBytes(buf[Len(buf)])

\* Offset of the boundary before cell k+1 of line l (k = 0 .. Len(line))
Boundary(buf, st, l, k) == st[l] + SumW(buf[l], k)

\* Exact: <<b,l,c>> names a cluster boundary of the buffer.
ExactPos(buf, st, b, l, c) ==
  /\ l \in 1..Len(buf)
  /\ c >= 1 /\ c - 1 <= Len(buf[l])
  /\ Boundary(buf, st, l, c - 1) = b

\* Lenient: a byte offset strictly inside cluster j of line l may be reported
\* with the column of that cluster or of the next one (the property does not
\* say which; such offsets are not cluster boundaries).
InsidePos(buf, st, b, l, c) ==
  /\ l \in 1..Len(buf)
  /\ \E j \in 1..Len(buf[l]) :
        /\ Boundary(buf, st, l, j - 1) < b
        /\ b < Boundary(buf, st, l, j)
        /\ c \in {j, j + 1}

WFPos(buf, st, b, l, c) == ExactPos(buf, st, b, l, c) \/ InsidePos(buf, st, b, l, c)

\* r = <<file, sb, sl, sc, eb, el, ec>> against the buffer of that file
BufLenSt(buf, st) == st[Len(buf)] + LineBytes(buf[Len(buf)])

WFRangeIn(buf, st, r) ==
  /\ 0 <= r[2] /\ r[2] <= r[5] /\ r[5] <= BufLenSt(buf, st)
  /\ WFPos(buf, st, r[2], r[3], r[4])
  /\ WFPos(buf, st, r[5], r[6], r[7])

\* ---- blanks ------------------------------------------------------------
\* Line containing byte offset b (b may be the newline that ends the line).
RECURSIVE LineOf(_, _, _)
LineOf(st, b, l) == IF l = Len(st) \/ st[l + 1] > b THEN l ELSE LineOf(st, b, l + 1)

\* Is the byte at offset b a blank (space, tab or newline)?
RECURSIVE CellAt(_, _, _, _)
CellAt(line, k, off, b) ==      \* cell whose bytes contain offset b, or -1 for "newline / past the end"
  IF k > Len(line) THEN -1
  ELSE IF b < off + W(line[k]) THEN line[k]
  ELSE CellAt(line, k + 1, off + W(line[k]), b)

BlankByte(buf, st, b) ==
  LET l == LineOf(st, b, 1)
      c == CellAt(buf[l], 1, st[l], b)
  IN  c = -1 \/ c = 0

\* All bytes in [b1, b2) are blank.
BlankBetween(buf, st, b1, b2) == \A b \in b1..(b2 - 1) : BlankByte(buf, st, b)

\* ---- edits that only move text (C18) ------------------------------------
\* Insert the lines `ins` before line `at` (1-based; at = Len(buf)+1 appends after the
\* last line *break*, i.e. the caller guarantees the buffer's last line is empty).
InsertLines(buf, at, ins) == SubSeq(buf, 1, at - 1) \o ins \o SubSeq(buf, at, Len(buf))

InsBytes(ins) == LET RECURSIVE S(_) S(i) == IF i = 0 THEN 0 ELSE S(i - 1) + LineBytes(ins[i]) + 1 IN S(Len(ins))

\* Shift a position that lies at or after the start of line `at`.
ShiftPos(st, at, dl, db, b, l, c) ==
  IF l >= at THEN <<b + db, l + dl, c>> ELSE <<b, l, c>>

\* Appending lines after the last line (at = Len(buf) + 1): nothing that was in the buffer moves, except that the end
\* of the buffer - a position AT the insertion point - is now the end of the last appended line.
EofPos(buf) == <<BufLen(buf), Len(buf), Len(buf[Len(buf)]) + 1>>
=============================================================================
