SPECIFICATION Spec
CONSTANTS
  NTok = 60
  NAlpha = 12
  Depth = 4
INVARIANTS TypeOK LenBound
CONSTRAINT Emit
CHECK_DEADLOCK FALSE
