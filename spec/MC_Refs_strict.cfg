SPECIFICATION Spec
INVARIANTS Strict
CHECK_DEADLOCK FALSE
