SPECIFICATION TSpec
CONSTANTS MaxCandidates = 100
POSTCONDITION TraceAccepted
CHECK_DEADLOCK FALSE
