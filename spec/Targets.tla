------------------------------ MODULE Targets ------------------------------
(***************************************************************************)
(* C09: reference targets are exactly the addressable declarations.        *)
(* The abstract schema of BodyRules is extended with                       *)
(*  block.addr : Nil | [steps : Seq(<<kind, arg>>), scope, asRef,          *)
(*               asTypeOf : "" | attribute name, bodyAsData,               *)
(*               depBodyAsData, unknownNested : BOOLEAN]                   *)
(*     steps: <<"static", name>> <<"label", index>>                        *)
(*            <<"attrval", name>> <<"attrvalopt", name>>                   *)
(*  attr.addr  : Nil | [steps (static / <<"attrname", "">>), scope,        *)
(*               asRef, asType : BOOLEAN]                                  *)
(*  body.tas   : Seq([addr : Seq(STRING), scope, typ])  (TargetableAs)     *)
(* A target (top level) is                                                 *)
(*  [addr : Seq(STRING), local : Seq(STRING), scope, typ, rng : item path, *)
(*   def : "header" | "name" | "value"]                                    *)
(* typ is the friendly type name or "?" where the statement does not pin   *)
(* it down; nested targets are constrained by the structural predicates of *)
(* TraceTargets.                                                           *)
(***************************************************************************)
EXTENDS BodyRules

Addr(x) == IF "addr" \in DOMAIN x THEN x.addr ELSE Nil
Tas(s) == IF "tas" \in DOMAIN s THEN s.tas ELSE <<>>
T(addr, local, scope, typ, rng, def) == [addr |-> addr, local |-> local, scope |-> scope, typ |-> typ, rng |-> rng, def |-> def]

\* address of a block from its declared steps; <<FALSE, _>> when a step cannot be resolved
RECURSIVE ResolveSteps(_, _, _)
ResolveSteps(steps, it, i) ==
  IF i > Len(steps) THEN <<TRUE, <<>>>>
  ELSE LET st == steps[i] rest == ResolveSteps(steps, it, i + 1) IN
       IF ~rest[1] THEN <<FALSE, <<>>>>
       ELSE CASE st[1] = "static" -> <<TRUE, <<st[2]>> \o rest[2]>>
              [] st[1] = "label"  -> IF st[2] + 1 <= Len(it.labels) THEN <<TRUE, <<it.labels[st[2] + 1]>> \o rest[2]>> ELSE <<FALSE, <<>>>>
              [] st[1] \in {"attrval", "attrvalopt"} ->
                    IF HasAttr(it.body, st[2])
                    THEN (IF AttrVal(it.body, st[2]).k = "str" THEN <<TRUE, <<AttrVal(it.body, st[2]).v>> \o rest[2]>> ELSE <<FALSE, <<>>>>)
                    ELSE (IF st[1] = "attrvalopt" THEN rest ELSE <<FALSE, <<>>>>)
              [] OTHER -> <<FALSE, <<>>>>

TypeOfDecl(body, attr) ==
  IF ~HasAttr(body, attr) THEN "dynamic"
  ELSE LET v == AttrVal(body, attr) IN
       IF v.k # "type" THEN "dynamic"
       ELSE CASE v.v = "string" -> "string" [] v.v = "number" -> "number" [] v.v = "bool" -> "bool"
              [] v.v = "list(string)" -> "list of string" [] v.v = "map(number)" -> "map of number" [] OTHER -> "?"

\* type of a written value under an any-expression constraint of dynamic type
ValueType(v) == CASE v.k = "str" -> "string" [] v.k = "num" -> "number" [] v.k = "other" -> "bool"
                  [] v.k = "list" -> "tuple" [] v.k = "obj" -> "object" [] v.k = "ref" -> "dynamic" [] OTHER -> "?"

\* a reference constraint with an address schema: the reference WRITTEN as the value declares a target of that address
\* (its extent is the written reference, it has no definition range and no type)
RefDeclTargets(s, it, p) ==
  LET as == IF Has(s.attrs, it.name) THEN s.attrs[it.name] ELSE Nil IN
  IF as # Nil /\ "cons" \in DOMAIN as /\ as.cons.k = "refdecl" /\ it.val.k = "legref"
  THEN {T(it.val.addr, <<>>, "prov", "none", p, "value")} ELSE {}

AttrTargets(s, it, p) ==
  LET as == IF Has(s.attrs, it.name) THEN s.attrs[it.name] ELSE Nil IN
  IF as = Nil \/ Addr(as) = Nil THEN {}
  ELSE LET a == Addr(as)
           addr == [i \in DOMAIN a.steps |-> IF a.steps[i][1] = "static" THEN a.steps[i][2] ELSE it.name]
       IN  (IF a.asRef THEN {T(addr, <<>>, a.scope, "none", p, "name")} ELSE {})
           \cup (IF a.asType THEN {T(addr, <<>>, a.scope, ValueType(it.val), p, "name")} ELSE {})

\* any-attribute bodies: every attribute is addressable through the any-attribute schema
AnyAttrTargets(s, it, p) ==
  IF ~s.any \/ ~("anyaddr" \in DOMAIN s) \/ s.anyaddr = Nil THEN {}
  ELSE LET a == s.anyaddr
           addr == [i \in DOMAIN a.steps |-> IF a.steps[i][1] = "static" THEN a.steps[i][2] ELSE it.name]
       IN  (IF a.asRef THEN {T(addr, <<>>, a.scope, "none", p, "name")} ELSE {})
           \cup (IF a.asType THEN {T(addr, <<>>, a.scope, ValueType(it.val), p, "name")} ELSE {})

RECURSIVE TargetsP(_, _, _)
TargetsP(s, body, path) ==
  IF s = Nil THEN {} ELSE
  UNION { LET it == body[i] p == path \o <<i>> IN
          IF it.k = "attr"
          THEN (IF s.ext.count /\ it.name = "count" THEN {T(<<>>, <<"count", "index">>, "", "number", p, "name")}
                ELSE IF s.ext.forEach /\ it.name = "for_each" THEN {T(<<>>, <<"each", "key">>, "", "string", p, "name"), T(<<>>, <<"each", "value">>, "", "dynamic", p, "name")}
                ELSE AttrTargets(s, it, p) \cup AnyAttrTargets(s, it, p) \cup RefDeclTargets(s, it, p))
          ELSE IF ~Has(s.blocks, it.type) THEN {}
          ELSE LET bs == s.blocks[it.type]
                   eff == Effective(bs, it)
                   inner == TargetsP(eff.schema, it.body, p)
                   tas == { T(Tas(eff.schema)[j].addr, <<>>, Tas(eff.schema)[j].scope, Tas(eff.schema)[j].typ, p, "header") : j \in DOMAIN Tas(eff.schema) }
                   a == Addr(bs)
                   r == IF a = Nil THEN <<FALSE, <<>>>> ELSE ResolveSteps(a.steps, it, 1)
                   own == IF a = Nil \/ ~r[1] THEN {}
                          ELSE (IF a.asRef THEN {T(r[2], <<>>, a.scope, "none", p, "header")} ELSE {})
                               \cup (IF a.asTypeOf # "" THEN {T(r[2], <<>>, a.scope, TypeOfDecl(it.body, a.asTypeOf), p, "header")} ELSE {})
                               \cup (IF a.bodyAsData THEN {T(r[2], <<>>, a.scope, "object", p, "header")} ELSE {})
                               \cup (IF a.depBodyAsData /\ ~a.bodyAsData /\ Lookup(bs, it).res = "Ok" THEN {T(r[2], <<>>, a.scope, "object", p, "header")} ELSE {})
                               \cup (IF a.unknownNested THEN {T(r[2], <<>>, a.scope, "dynamic", p, "header")} ELSE {})
               IN  inner \cup tas \cup own
        : i \in DOMAIN body }
=============================================================================
