----------------------------- MODULE TraceSyntax -----------------------------
(***************************************************************************)
(* C19: Targets / origins / outline take no syntax argument.  One abstract *)
(* configuration is rendered in native and in JSON syntax; both            *)
(* observations must agree with each other and with the reference          *)
(* operators (TargetsP for the absolute top-level targets, the item tree   *)
(* for the outline).                                                       *)
(***************************************************************************)
EXTENDS Targets, Json, IOUtils
Trace == ndJsonDeserialize(IOEnv.TRACE)
VARIABLES l, bad
tvars == <<l, bad>>
Ev == Trace[l]
V(what) == [l |-> l, prop |-> "C19", what |-> what, case |-> Ev.case, layout |-> Ev.layout]

BagOf(q) == [x \in {q[i] : i \in DOMAIN q} |-> Cardinality({i \in DOMAIN q : q[i] = x})]
Quote(s) == "\"" \o s \o "\""
RECURSIVE LabelText(_, _)
LabelText(ls, i) == IF i > Len(ls) THEN "" ELSE " " \o Quote(ls[i]) \o LabelText(ls, i + 1)
RECURSIVE NamePaths(_, _)
NamePaths(body, prefix) ==       \* sequence (with repetitions) of the name paths of all attributes and blocks
  IF body = <<>> THEN <<>>
  ELSE LET it == body[1]
           me == prefix \o "/" \o (IF it.k = "attr" THEN it.name ELSE it.type \o LabelText(it.labels, 1))
       IN  <<me>> \o (IF it.k = "block" THEN NamePaths(it.body, me) ELSE <<>>) \o NamePaths(Tail(body), prefix)

Names(addr) == [i \in DOMAIN addr |-> addr[i][2]]

SynViol(e) ==
  LET n == e.native  j == e.json
      absTop == { <<t.addr, t.scope, t.typ>> : t \in {t \in TargetsP(e.schema, e.doc, <<>>) : t.addr # <<>>} }
      topOf(o) == { <<Names(o.targets[i][1]), o.targets[i][2], o.targets[i][3]>> : i \in {i \in DOMAIN o.targets : o.targets[i][4] = 0} }
      agrees(obs) == /\ \A x \in absTop : \E y \in obs : y[1] = x[1] /\ y[2] = x[2] /\ (x[3] = "?" \/ y[3] = x[3])
                     /\ \A y \in obs : \E x \in absTop : y[1] = x[1] /\ y[2] = x[2] /\ (x[3] = "?" \/ y[3] = x[3])
  IN
  (IF n.status # "ok" \/ j.status # "ok" THEN {V("collection failed in one of the syntaxes: " \o n.status \o " / " \o j.status)} ELSE {})
  \cup (IF BagOf(n.targets) # BagOf(j.targets) THEN {V("absolute reference targets differ between native and JSON syntax")} ELSE {})
  \cup (IF ~agrees(topOf(j)) THEN {V("the JSON rendering does not yield the targets the configuration declares")} ELSE {})
  \cup (IF BagOf(n.origins) # BagOf(j.origins) THEN {V("reference origins differ between native and JSON syntax")} ELSE {})
  \cup (IF BagOf(j.symbols) # BagOf(NamePaths(e.doc, ""))
        THEN {V("the JSON outline is not the block / attribute outline of the configuration"),
              \* the same observation decides C14 for JSON files ("JSON with schema")
              [V("the symbols of a JSON file do not correspond one-to-one to the attributes and blocks written in it") EXCEPT !.prop = "C14"]} ELSE {})
  \cup (IF BagOf(n.symbols) # BagOf(j.symbols) THEN {V("block / attribute outline differs between native and JSON syntax")} ELSE {})

TInit == l = 1 /\ bad = {}
Step == /\ l <= Len(Trace) /\ l' = l + 1
        /\ bad' = bad \cup (IF Ev.ev = "Syntax" THEN SynViol(Ev) ELSE {})
Finish == /\ l = Len(Trace) + 1
          /\ JsonSerialize(IOEnv.VOUT, [consumed |-> l - 1, bad |-> bad])
          /\ l' = l + 1 /\ UNCHANGED bad
TNext == Step \/ Finish
TSpec == TInit /\ [][TNext]_tvars
TraceAccepted == TLCGet("stats").diameter = Len(Trace) + 2
=============================================================================
