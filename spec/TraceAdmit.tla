------------------------------- MODULE TraceAdmit -------------------------------
(* Trace validation for Admit.tla: Validate() of the real schema package against Accept, and what the queries did on *)
(* the schemas it accepted (C01).                                                                                   *)
EXTENDS Admit, Json, IOUtils, TLC
Trace == ndJsonDeserialize(IOEnv.TRACE)
VARIABLES l, bad
tvars == <<l, bad>>
Ev == Trace[l]

AdmitViol(e) ==
  (IF e.valid # Accept(e.schema)
   THEN {[l |-> l, prop |-> "MODEL", what |-> "Validate() and Admit!Accept disagree (Validate says " \o (IF e.valid THEN "valid" ELSE "invalid: " \o e.verr) \o ")"]}
   ELSE {})
  \cup { [l |-> l, prop |-> "C01", what |-> "panic on a schema the schema package accepts: " \o e.panics[i].site] : i \in DOMAIN e.panics }

TInit == l = 1 /\ bad = {}
Step == /\ l <= Len(Trace) /\ l' = l + 1
        /\ bad' = bad \cup (IF Ev.ev = "Admit" THEN AdmitViol(Ev) ELSE {})
Finish == /\ l = Len(Trace) + 1
          /\ JsonSerialize(IOEnv.VOUT, [consumed |-> l - 1, bad |-> bad])
          /\ l' = l + 1 /\ UNCHANGED bad
TNext == Step \/ Finish
TSpec == TInit /\ [][TNext]_tvars
TraceAccepted == TLCGet("stats").diameter = Len(Trace) + 2
=============================================================================
