------------------------------ MODULE ValComp ------------------------------
(***************************************************************************)
(* C08: completion inside an attribute value.                              *)
(* The declarations of the replayed documents are fixed (block loc with    *)
(* s, n, b, l, o, m; block b with sa and two part blocks); their addresses *)
(* are given as text, with the tree structure (Parent).  Whether a         *)
(* declared type converts to the expected type is cty's business: the      *)
(* harness evaluates cty's convert on the declared types and logs the      *)
(* table (conv, fnconv) - an assumption, not something this module         *)
(* re-derives.                                                             *)
(***************************************************************************)
EXTENDS Integers, Sequences, FiniteSets, TLC

LocDecl == {"loc.s", "loc.n", "loc.b", "loc.l", "loc.l[0]", "loc.l[1]", "loc.o", "loc.o.k", "loc.o.n", "loc.m", "loc.m.a", "loc.x"}
BDecl == {"b", "b.v", "b.sa", "b.part", "b.part[0]", "b.part[1]", "b.part[0].pw", "b.part[0].ph", "b.part[1].pw", "b.part[1].ph"}
SelfDecl == {"self.v", "self.sa", "self.part", "self.part[0]", "self.part[1]", "self.part[0].pw", "self.part[0].ph", "self.part[1].pw", "self.part[1].ph"}

\* placement 2: two blocks of one type, c "one" (with a written list) and c "two" (being edited); self.* is c.two.*
CDecl == {"c.one", "c.one.tags", "c.one.tags[0]", "c.one.tags[1]", "c.one.v", "c.two", "c.two.tags", "c.two.v"}
SelfC == {"self.tags", "self.v"}

\* placement 3: two blocks d "one" and d "two"; the cursor is in a nested block `inner` of d "two".  From inside a top-level
\* block neither that block nor anything declared in it is offered by its absolute address (outer-block exclusion of
\* Targets.MatchWalk: a reference from a block to itself is a cycle) - whatever the nesting depth of the cursor.
DOne == {"d.one", "d.one.tags", "d.one.tags[0]", "d.one.tags[1]"}

\* placement 4: the attribute being edited is at the root of one file; ANOTHER file of the same path holds a block e "blk"
\* with a count (its block-local name count.index must not be visible here, whatever the byte offsets in the two files)
EDecl == {"e.blk"}

IsPrefixStr(p, s) == Len(p) <= Len(s) /\ SubSeq(s, 1, Len(p)) = p
\* x is a proper descendant of d:  d followed by "." or "["
Descends(x, d) == Len(x) > Len(d) /\ SubSeq(x, 1, Len(d)) = d /\ SubSeq(x, Len(d) + 1, Len(d) + 1) \in {".", "["}

\* declarations visible from the cursor: env = [level, self : BOOLEAN, edited : the address texts of the attribute being edited]
Visible(env) ==
  (IF env.level = 4 THEN LocDecl \cup EDecl ELSE
   IF env.level = 3 THEN LocDecl \cup DOne ELSE
   IF env.level = 2 THEN LocDecl \cup CDecl \cup (IF env.self THEN SelfC ELSE {})
   ELSE (LocDecl \cup (IF env.level = 1 THEN BDecl ELSE {})) \cup (IF env.level = 1 /\ env.self THEN SelfDecl ELSE {})) \ env.edited

\* The expression form the cursor is inside, and the type expected at the cursor there (the constraint the decoder hands
\* down: the operand type of the operator, the parameter type of the function, string inside a template, the type of the
\* whole expression inside parentheses and in the branches of a conditional (since the repair of the conditional branches,
\* DESIGN 8); as far as this module assumes, any type in the parts of a `for` expression).
\* "cmpr" / "cmpl": right / left operand of a comparison (operands are numbers, the result is a bool); "eqr": right operand of
\* an equality (operands of any type, the result is a bool) - the expected type is the operand's, never the result's.
Forms == {"plain", "tmpl", "binr", "cmpr", "cmpl", "eqr", "condt", "condf", "arg", "paren", "forcoll", "forbody"}
ExpType(c, form) == CASE form = "tmpl" -> "string" [] form \in {"binr", "cmpr", "cmpl"} -> "number" [] form = "arg" -> "string"
                      [] form = "eqr" -> "dynamic"
                      [] form \in {"forcoll", "forbody"} -> "dynamic" [] OTHER -> c.t
ConsAt(c, form) == IF form = "plain" THEN c ELSE [k |-> "any", t |-> ExpType(c, form)]

\* conv : address text -> BOOLEAN (does the declared type convert to the expected one) - from cty, via the harness
Fits(d, env, conv) == d \in DOMAIN conv /\ (conv[d] \/ \E x \in Visible(env) \cap DOMAIN conv : Descends(x, d) /\ conv[x])

RefCandOK(label, typed, env, conv) ==
  /\ label \in Visible(env)
  /\ IsPrefixStr(typed, label)
  /\ Fits(label, env, conv)

FnCandOK(name, typed, fnconv) == name \in DOMAIN fnconv /\ fnconv[name] /\ IsPrefixStr(typed, name)

\* keyword / boolean / literal candidates the constraint at the cursor admits, as a set of labels (or "open" when not pinned down)
Admitted(c, typed) ==
  CASE c.k = "kw" -> {x \in {"kw"} : IsPrefixStr(typed, x)}
    [] c.k \in {"any", "lit"} /\ c.t = "bool" -> {x \in {"true", "false"} : IsPrefixStr(typed, x)}
    [] OTHER -> {}
Pinned(c) == c.k = "kw" \/ (c.k \in {"any", "lit"} /\ c.t = "bool")
=============================================================================
