------------------------------- MODULE MC_Text -------------------------------
(***************************************************************************)
(* The text model on which C02 / C06 / C18 rest, checked on all small      *)
(* buffers: positions and offsets correspond one to one, inserting whole   *)
(* lines moves exactly the positions at or after the insertion point, and  *)
(* the byte length is additive.                                            *)
(***************************************************************************)
EXTENDS Text, TLC
CONSTANTS MaxLines, MaxCells
VARIABLES buf, at, ins
vars == <<buf, at, ins>>
Cells == {0, 1, 3}
LinesUpTo(n) == UNION { [1..k -> Cells] : k \in 0..n }
Bufs == UNION { [1..k -> LinesUpTo(MaxCells)] : k \in 1..MaxLines }
Init == buf \in Bufs /\ at \in 1..(Len(buf) + 1) /\ ins \in UNION { [1..k -> LinesUpTo(1)] : k \in 1..2 }
Next == UNCHANGED vars
Spec == Init /\ [][Next]_vars

St == LineStarts(buf)
New == InsertLines(buf, at, ins)
NSt == LineStarts(New)
\* every cluster boundary of the buffer with its line and column
Exact == UNION { { <<Boundary(buf, St, l, k), l, k + 1>> : k \in 0..Len(buf[l]) } : l \in 1..Len(buf) }

\* every cluster boundary has exactly one line/column, and every exact position is well formed
PosUnique == \A p, q \in Exact : p[1] = q[1] => p = q
ExactIsWF == \A p \in Exact : ExactPos(buf, St, p[1], p[2], p[3]) /\ p[1] <= BufLenSt(buf, St)
\* and no other line/column is accepted for that offset as an exact position
NoOtherPos == \A p \in Exact : \A l \in 1..Len(buf) : \A c \in 1..(MaxCells + 1) : ExactPos(buf, St, p[1], l, c) => <<l, c>> = <<p[2], p[3]>>
\* positions at or after the insertion line move by the inserted lines / bytes; the others stay
ShiftSound == \A p \in Exact : LET q == ShiftPos(St, at, Len(ins), InsBytes(ins), p[1], p[2], p[3]) IN ExactPos(New, NSt, q[1], q[2], q[3])
LenAdditive == BufLenSt(New, NSt) = BufLenSt(buf, St) + InsBytes(ins)
\* appending after the last line: the old end of the buffer becomes the end of the last appended line
AppendSound == at = Len(buf) + 1 => /\ EofPos(New) = <<EofPos(buf)[1] + InsBytes(ins), Len(buf) + Len(ins), Len(ins[Len(ins)]) + 1>>
                                    /\ ExactPos(New, NSt, EofPos(New)[1], EofPos(New)[2], EofPos(New)[3])
                                    /\ EofPos(buf) \in Exact
\* blanks: a whole line of blanks is blank between its ends
BlankSound == \A l \in 1..Len(buf) : (\A k \in DOMAIN buf[l] : buf[l][k] = 0) => BlankBetween(buf, St, St[l], St[l] + LineBytes(buf[l]))
=============================================================================
