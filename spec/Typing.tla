------------------------------- MODULE Typing -------------------------------
(***************************************************************************)
(* The editing client of the session machine (C01 / C02: "the history of   *)
(* states a buffer goes through while it is typed").  A buffer is a        *)
(* sequence of tokens: positive numbers are tokens of the seed document    *)
(* (by index), negative numbers tokens of a fixed alphabet of replacement  *)
(* texts.  Every step is one edit; TLC's simulation mode generates         *)
(* histories of several accumulated edits, which the harness applies to    *)
(* the real seed documents, running every query after every edit.          *)
(***************************************************************************)
EXTENDS Integers, Sequences, Json, TLC
CONSTANTS NTok,      \* number of tokens of the seed document
          NAlpha,    \* size of the replacement alphabet
          Depth      \* edits per history
VARIABLES buf, hist
vars == <<buf, hist>>

Init == buf = [i \in 1..NTok |-> i] /\ hist = <<>>

RemoveAt(s, i) == SubSeq(s, 1, i - 1) \o SubSeq(s, i + 1, Len(s))
InsertAt(s, i, x) == SubSeq(s, 1, i - 1) \o <<x>> \o SubSeq(s, i, Len(s))

DeleteTok(i) == /\ buf' = RemoveAt(buf, i)
                /\ hist' = Append(hist, [op |-> "del", i |-> i, a |-> 0])
InsertTok(i, a) == /\ buf' = InsertAt(buf, i, -a)
                   /\ hist' = Append(hist, [op |-> "ins", i |-> i, a |-> a])
ReplaceTok(i, a) == /\ buf' = [buf EXCEPT ![i] = -a]
                    /\ hist' = Append(hist, [op |-> "rep", i |-> i, a |-> a])
\* cut the buffer after token i (the user has typed this far) - the prefix histories
Truncate(i) == /\ buf' = SubSeq(buf, 1, i)
               /\ hist' = Append(hist, [op |-> "cut", i |-> i, a |-> 0])
\* a text-moving edit elsewhere: duplicate token i (declarations may legitimately repeat)
DupTok(i) == /\ buf' = InsertAt(buf, i, buf[i])
             /\ hist' = Append(hist, [op |-> "dup", i |-> i, a |-> 0])

Next == /\ Len(hist) < Depth
        /\ Len(buf) > 0
        /\ \/ \E i \in 1..Len(buf) : DeleteTok(i) \/ DupTok(i)
           \/ \E i \in 1..Len(buf), a \in 1..NAlpha : InsertTok(i, a) \/ ReplaceTok(i, a)
           \/ \E i \in 1..Len(buf) : Len(hist) = 0 /\ Truncate(i)
Spec == Init /\ [][Next]_vars

\* the buffer only ever holds tokens of the document or of the alphabet; its length changes by at most one per edit
TypeOK == \A i \in DOMAIN buf : buf[i] \in (1..NTok) \cup {-a : a \in 1..NAlpha}
LenBound == Len(buf) <= NTok + Len(hist)
Emit == Len(hist) = Depth => PrintT(ToJson([hist |-> hist]))
=============================================================================
