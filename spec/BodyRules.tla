----------------------------- MODULE BodyRules -----------------------------
(***************************************************************************)
(* Effective body schema of a block, body / label completion, validation.  *)
(*                                                                         *)
(* P layer  = what C07 / C15 / C16 state (CandP, LabelCandP, Diags,        *)
(*            AcceptSafe, canonical keys).                                 *)
(* M layer  = transcription of the mechanisms in                           *)
(*            schemahelper.{dependencyKeysFromBlock, DependentBodySchema,  *)
(*            MergeBlockBodySchemas, buildDynamicBlockSchema},             *)
(*            decoder.bodySchemaCandidates, walker.Walk + validator.*      *)
(*                                                                         *)
(* Abstract values (tagged records, shared with the Go harness as JSON):   *)
(*  item   : [k |-> "attr", name, val]                                     *)
(*           val: [k |-> "str"|"ref"|"num", v] | [k |-> "other"]           *)
(*           [k |-> "block", type, labels : Seq(STRING), body : Seq(item)] *)
(*  bodyS  : [attrs : name -> AttrS, blocks : type -> BlockS,              *)
(*            any : BOOLEAN, ext : [count, forEach, dyn : BOOLEAN]] or Nil *)
(*  AttrS  : [req, opt, comp, dep, depr : BOOLEAN, dflt : Nil | val]       *)
(*  BlockS : [labels : Seq([dep, comp : BOOLEAN]), body : bodyS | Nil,     *)
(*            deps : Seq([lk : Seq(<<index, value>>),                      *)
(*                        ak : Seq(<<name, val>>), body : bodyS]),         *)
(*            min, max : Nat, depr : BOOLEAN]                              *)
(***************************************************************************)
EXTENDS Integers, Sequences, FiniteSets, SequencesExt, TLC

Nil == [k |-> "nil"]
Has(f, x) == x \in DOMAIN f
EmptyFn == [x \in {} |-> Nil]
Overlay(f, g) == [x \in DOMAIN f \cup DOMAIN g |-> IF x \in DOMAIN g THEN g[x] ELSE f[x]]

\* ---- documents ---------------------------------------------------------------------------
AttrsOf(b)      == {i \in DOMAIN b : b[i].k = "attr"}
BlocksOf(b)     == {i \in DOMAIN b : b[i].k = "block"}
HasAttr(b, n)   == \E i \in AttrsOf(b) : b[i].name = n
\* HCL keeps the first definition of a duplicated attribute
AttrVal(b, n)   == b[CHOOSE i \in AttrsOf(b) : b[i].name = n /\ \A j \in AttrsOf(b) : b[j].name = n => i <= j].val
Count(b, t)     == Cardinality({i \in BlocksOf(b) : b[i].type = t})
DynCount(b, t)  == Cardinality({i \in BlocksOf(b) : b[i].type = "dynamic" /\ Len(b[i].labels) > 0 /\ b[i].labels[1] = t})

\* ---- schemas -----------------------------------------------------------------------------
NoExt == [count |-> FALSE, forEach |-> FALSE, dyn |-> FALSE]
EmptyBodyS == [attrs |-> EmptyFn, blocks |-> EmptyFn, any |-> FALSE, ext |-> NoExt, link |-> FALSE]
PlainAttr(req) == [req |-> req, opt |-> ~req, comp |-> FALSE, dep |-> FALSE, depr |-> FALSE, dflt |-> Nil]

\* dependencyKeysFromBlock: label keys in index order; stops at the first key label the block does not
\* have (and then contributes no attribute keys at all); attribute keys from literal / reference / default values.
RECURSIVE LabelKeys(_, _, _)
LabelKeys(ls, blk, i) ==       \* returns <<pairs, complete>>
  IF i > Len(ls) THEN <<{}, TRUE>>
  ELSE IF ~ls[i].dep THEN LabelKeys(ls, blk, i + 1)
  ELSE IF i > Len(blk.labels) THEN <<{}, FALSE>>
  ELSE LET r == LabelKeys(ls, blk, i + 1) IN <<{<<i - 1, blk.labels[i]>>} \cup r[1], r[2]>>

\* any written value contributes a key (a constant that is not registered makes the lookup fail)
KeyVal(v) == v.k \in {"str", "ref", "num", "other"}

AttrKeys(bodyS, blk) ==
  IF bodyS = Nil THEN {}
  ELSE { <<n, IF HasAttr(blk.body, n) THEN AttrVal(blk.body, n) ELSE bodyS.attrs[n].dflt>> :
           n \in { n \in DOMAIN bodyS.attrs : /\ bodyS.attrs[n].dep
                                             /\ \/ (HasAttr(blk.body, n) /\ KeyVal(AttrVal(blk.body, n)))
                                                \/ (~HasAttr(blk.body, n) /\ bodyS.attrs[n].dflt # Nil) } }

DepKeys(bs, bodyS, blk) ==
  LET lk == LabelKeys(bs.labels, blk, 1) IN
  IF lk[2] THEN <<lk[1], AttrKeys(bodyS, blk)>> ELSE <<lk[1], {}>>

\* the dependent body registered under a key (keys are compared as SETS of pairs: C16 canonicity)
DepIdx(bs, key) == {i \in DOMAIN bs.deps : ToSet(bs.deps[i].lk) = key[1] /\ ToSet(bs.deps[i].ak) = key[2]}
HasDep(bs, key) == DepIdx(bs, key) # {}
DepBody(bs, key) == bs.deps[CHOOSE i \in DepIdx(bs, key) : TRUE].body

\* DependentBodySchema: result kind and selected body, incl. the second level
Lookup(bs, blk) ==
  LET k1 == DepKeys(bs, bs.body, blk) IN
  IF k1[1] = {} /\ k1[2] = {} THEN [res |-> "NoKeys", body |-> bs.body, keys |-> k1]
  ELSE IF ~HasDep(bs, k1) THEN [res |-> "Failed", body |-> Nil, keys |-> k1]
  ELSE LET d1 == DepBody(bs, k1) IN
       IF \E n \in DOMAIN d1.attrs : d1.attrs[n].dep
       THEN LET k2 == DepKeys(bs, d1, blk) IN
            IF (k2[1] # {} \/ k2[2] # {}) /\ HasDep(bs, k2)
            THEN LET d2 == DepBody(bs, k2) IN
                 \* the nested lookup would recurse only once (seenNestedDepKeys)
                 [res |-> "Ok", body |-> d2, keys |-> k2]
            ELSE [res |-> "Partial", body |-> d1, keys |-> k1]
       ELSE [res |-> "Ok", body |-> d1, keys |-> k1]

\* buildDynamicBlockSchema(input, source): one dependent body per block type of `input`, each with a
\* `content` block (exactly one) whose body is the body of that type in `source`
DynamicS(inputTypes, sourceBlocks) ==
  [labels |-> <<[dep |-> TRUE, comp |-> TRUE]>>, min |-> 0, max |-> 0, depr |-> FALSE,
   body |-> [attrs |-> [n \in {"for_each", "iterator", "labels"} |-> PlainAttr(n = "for_each")],
             blocks |-> EmptyFn, any |-> FALSE, ext |-> NoExt, link |-> FALSE],
   deps |-> SetToSeq({ [lk |-> << <<0, t>> >>, ak |-> <<>>,
                        body |-> [attrs |-> EmptyFn, any |-> FALSE, ext |-> NoExt, link |-> FALSE,
                                  blocks |-> [c \in {"content"} |-> [labels |-> <<>>, min |-> 1, max |-> 1, depr |-> FALSE, deps |-> <<>>,
                                                                     body |-> sourceBlocks[t].body]]]] : t \in inputTypes })]

WithDyn(blockS) == IF blockS.body = Nil THEN blockS
                   ELSE [blockS EXCEPT !.body = [blockS.body EXCEPT !.ext = [blockS.body.ext EXCEPT !.dyn = TRUE]]]

TasOf(s) == IF "tas" \in DOMAIN s THEN s.tas ELSE <<>>
AnyAddrOf(s) == IF "anyaddr" \in DOMAIN s THEN s.anyaddr ELSE Nil

\* MergeBlockBodySchemas
Effective(bs, blk) ==
  LET lk == Lookup(bs, blk)
      st == IF bs.body = Nil THEN EmptyBodyS ELSE bs.body
  IN  IF lk.res \in {"Ok", "Partial"}
      THEN LET d == lk.body
               dblocks == IF st.ext.dyn THEN [t \in DOMAIN d.blocks |-> WithDyn(d.blocks[t])] ELSE d.blocks
               blocks0 == Overlay(st.blocks, dblocks)
               blocks1 == IF st.ext.dyn /\ DOMAIN d.blocks # {}
                          THEN Overlay(blocks0, [x \in {"dynamic"} |-> DynamicS(DOMAIN d.blocks, blocks0)]) ELSE blocks0
           IN  [schema |-> [attrs |-> Overlay(st.attrs, d.attrs), blocks |-> blocks1, any |-> st.any, ext |-> st.ext, tas |-> TasOf(st) \o TasOf(d), anyaddr |-> AnyAddrOf(st)],
                unknown |-> lk.res = "Partial", res |-> lk.res]
      ELSE LET blocks0 == IF st.ext.dyn /\ DOMAIN st.blocks # {} THEN [t \in DOMAIN st.blocks |-> WithDyn(st.blocks[t])] ELSE st.blocks
               blocks1 == IF st.ext.dyn /\ DOMAIN st.blocks # {}
                          THEN Overlay(blocks0, [x \in {"dynamic"} |-> DynamicS(DOMAIN blocks0, blocks0)]) ELSE blocks0
           IN  [schema |-> [attrs |-> st.attrs, blocks |-> blocks1, any |-> st.any, ext |-> st.ext, tas |-> TasOf(st), anyaddr |-> AnyAddrOf(st)],
                unknown |-> lk.res = "Failed", res |-> lk.res]

\* ---- completion ----------------------------------------------------------------------------
AttrDeclarable(s, b, n)  == ~(s.attrs[n].comp /\ ~s.attrs[n].opt) /\ ~HasAttr(b, n)
BlockDeclarable(s, b, t) == s.blocks[t].max = 0 \/ Count(b, t) < s.blocks[t].max
ExtNames(s, b) == {n \in {"count"} : s.ext.count /\ ~HasAttr(b, n)} \cup {n \in {"for_each"} : s.ext.forEach /\ ~HasAttr(b, n)}

\* P (C07): names of the effective schema (plus extension attributes) that start with the prefix
\* and can still be declared; a block type shadowed by an attribute of the same name is offered once.
CandP(s, b, pfx) ==
  { n \in ExtNames(s, b) \cup {n \in DOMAIN s.attrs : AttrDeclarable(s, b, n)}
                         \cup {t \in DOMAIN s.blocks : BlockDeclarable(s, b, t)} : IsPrefix(pfx, n) }

\* Names the statement leaves open: a block type that shares its name with an attribute which can no longer be
\* declared (the decoder deliberately prefers the attribute and offers nothing), and the placeholder "name" that
\* an any-attribute body offers for an empty prefix.  They may or may not be offered.
CandOpen(s, b, pfx) ==
  {t \in DOMAIN s.blocks : Has(s.attrs, t) /\ ~AttrDeclarable(s, b, t)}
  \cup (IF s.any /\ pfx = "" THEN {"name"} ELSE {})
CandOK(s, b, pfx, offered) ==
  /\ (CandP(s, b, pfx) \ CandOpen(s, b, pfx)) \subseteq offered
  /\ offered \subseteq (CandP(s, b, pfx) \cup CandOpen(s, b, pfx))

\* M: decoder.bodySchemaCandidates as written (after the fix of the count/for_each prefix defect)
CandM(s, b, pfx) ==
  {n \in ExtNames(s, b) : IsPrefix(pfx, n)} \cup
  {n \in DOMAIN s.attrs : AttrDeclarable(s, b, n) /\ IsPrefix(pfx, n)} \cup
  {t \in DOMAIN s.blocks : ~Has(s.attrs, t) /\ BlockDeclarable(s, b, t) /\ IsPrefix(pfx, t)}

\* M-: the defect that was repaired (extension attributes outside the prefix filter) - sensitivity config
CandBuggy(s, b, pfx) ==
  ExtNames(s, b) \cup
  {n \in DOMAIN s.attrs : AttrDeclarable(s, b, n) /\ IsPrefix(pfx, n)} \cup
  {t \in DOMAIN s.blocks : ~Has(s.attrs, t) /\ BlockDeclarable(s, b, t) /\ IsPrefix(pfx, t)}

\* label completion: the values registered for label index i (0-based) in the dependent-body keys
LabelCandP(bs, i, pfx) == { p[2] : p \in { p \in UNION {ToSet(bs.deps[j].lk) : j \in DOMAIN bs.deps} : p[1] = i /\ IsPrefix(pfx, p[2]) } }

\* ---- validation (walker + validators) --------------------------------------------------------
KnownAttr(s, n) == Has(s.attrs, n) \/ s.any \/ (s.ext.count /\ n = "count") \/ (s.ext.forEach /\ n = "for_each")
AttrDepr(s, n) == Has(s.attrs, n) /\ s.attrs[n].depr /\ ~(s.ext.count /\ n = "count") /\ ~(s.ext.forEach /\ n = "for_each")

\* Diagnostics as a set of tuples; the first component is the kind, the second the path of the item
\* (or of the block whose body is meant; <<>> = the file's root body).
RECURSIVE Diags(_, _, _, _)
Diags(s, b, path, unknown) ==      \* s = Nil means "no schema for this body"
  LET unk == unknown \/ s = Nil
      here == IF s = Nil THEN {} ELSE
        { <<"missingAttr", path, n>> : n \in {n \in DOMAIN s.attrs : s.attrs[n].req /\ ~HasAttr(b, n)} } \cup
        { <<"tooMany", path, t>> : t \in {t \in DOMAIN s.blocks : s.blocks[t].max # 0 /\ Count(b, t) > s.blocks[t].max} } \cup
        { <<"tooFew", path, t>> : t \in {t \in DOMAIN s.blocks : s.blocks[t].min # 0 /\ Count(b, t) < s.blocks[t].min
                                                                 /\ ~(s.ext.dyn /\ DynCount(b, t) > 0)} }
      items == UNION {
        IF b[i].k = "attr"
        THEN IF s = Nil THEN {}
             ELSE (IF ~unk /\ ~KnownAttr(s, b[i].name) THEN {<<"unexpectedAttr", path \o <<i>>>>} ELSE {})
                  \cup (IF AttrDepr(s, b[i].name) THEN {<<"deprAttr", path \o <<i>>>>} ELSE {})
        ELSE IF s = Nil \/ ~Has(s.blocks, b[i].type)
             THEN (IF ~unk THEN {<<"unexpectedBlock", path \o <<i>>>>} ELSE {}) \cup Diags(Nil, b[i].body, path \o <<i>>, unk)
             ELSE LET bs == s.blocks[b[i].type]
                      nl == Len(bs.labels)
                      lbl == { <<"surplusLabel", path \o <<i>>, j>> : j \in (nl + 1)..Len(b[i].labels) } \cup
                             (IF nl > Len(b[i].labels) THEN {<<"missingLabels", path \o <<i>>>>} ELSE {}) \cup
                             (IF bs.depr THEN {<<"deprBlock", path \o <<i>>>>} ELSE {})
                  IN  lbl \cup (IF bs.body = Nil THEN Diags(Nil, b[i].body, path \o <<i>>, unk)
                                ELSE LET e == Effective(bs, b[i]) IN Diags(e.schema, b[i].body, path \o <<i>>, unk \/ e.unknown))
        : i \in DOMAIN b }
  IN here \cup items

\* Regions the property does not speak about: everything nested in a block that has no schema (unknown type, block
\* schema without body).  Paths of such blocks; observations inside them are not asserted either way.
RECURSIVE Opaque(_, _, _)
Opaque(s, b, path) ==
  UNION { IF b[i].k = "attr" THEN {}
          ELSE IF s = Nil \/ ~Has(s.blocks, b[i].type) \/ s.blocks[b[i].type].body = Nil THEN {path \o <<i>>}
          ELSE Opaque(Effective(s.blocks[b[i].type], b[i]).schema, b[i].body, path \o <<i>>) : i \in DOMAIN b }

Bad(d) == d[1] \in {"unexpectedAttr", "unexpectedBlock", "tooMany", "surplusLabel"}
BadOf(D) == {d \in D : Bad(d)}

\* ---- accepting a candidate (C07, last sentence) ------------------------------------------------
NewItem(s, c) ==
  IF Has(s.blocks, c) /\ ~Has(s.attrs, c) /\ c \notin {"count", "for_each"}
  THEN [k |-> "block", type |-> c, labels |-> [i \in 1..Len(s.blocks[c].labels) |-> "new"], body |-> <<>>]
  ELSE [k |-> "attr", name |-> c, val |-> [k |-> "other"]]

\* Accepting any candidate adds no "bad" diagnostic (positions of existing items are unchanged: the item is appended)
AcceptSafe(s, b, pfx, unknown) ==
  \A c \in CandP(s, b, pfx) : BadOf(Diags(s, Append(b, NewItem(s, c)), <<>>, unknown)) \subseteq BadOf(Diags(s, b, <<>>, unknown))

\* ---- names, types and labels: tokens with modifiers, hover (C13, C12) ------------------------------------------
Mods(x) == IF "mods" \in DOMAIN x THEN x.mods ELSE <<>>
Desc(x) == IF "desc" \in DOMAIN x THEN x.desc ELSE ""
ExtAttr(s, n) == (s.ext.count /\ n = "count") \/ (s.ext.forEach /\ n = "for_each")

\* every schema-known name written in the document: attribute names, block types, labels (not the surplus ones),
\* with the modifiers of the element and of all enclosing blocks and the description the effective schema gives it
RECURSIVE NamesP(_, _, _, _)
NamesP(s, body, path, pmods) ==
  IF s = Nil THEN {} ELSE
  UNION { LET it == body[i] p == path \o <<i>> IN
          IF it.k = "attr"
          THEN (IF Has(s.attrs, it.name) THEN {[kind |-> "attr", path |-> p, j |-> 0, mods |-> pmods \o Mods(s.attrs[it.name]), desc |-> Desc(s.attrs[it.name]), text |-> it.name]}
                ELSE IF ExtAttr(s, it.name) \/ s.any THEN {[kind |-> "attr", path |-> p, j |-> 0, mods |-> pmods, desc |-> "", text |-> it.name]}
                ELSE {})
          ELSE IF ~Has(s.blocks, it.type) THEN {}
          ELSE LET bs == s.blocks[it.type]
                   bm == pmods \o Mods(bs)
                   lk == Lookup(bs, it)
               IN  {[kind |-> "block", path |-> p, j |-> 0, mods |-> bm, desc |-> Desc(bs), text |-> it.type]}
                   \cup { [kind |-> "label", path |-> p, j |-> j, mods |-> bm \o Mods(bs.labels[j]),
                           desc |-> IF bs.labels[j].dep /\ lk.res \in {"Ok", "Partial"} /\ Desc(lk.body) # "" THEN Desc(lk.body) ELSE Desc(bs.labels[j]),
                           text |-> it.labels[j]] : j \in 1..(IF Len(bs.labels) < Len(it.labels) THEN Len(bs.labels) ELSE Len(it.labels)) }
                   \cup (IF bs.body = Nil THEN {} ELSE NamesP(Effective(bs, it).schema, it.body, p, bm))
        : i \in DOMAIN body }

\* ---- documentation links (C16, last clause) --------------------------------------------------
\* links of one top-level block: on every label and written attribute that selected a body having a link
LinksP(bs, blk) ==
  LET lk == Lookup(bs, blk) IN
  IF lk.res \in {"Ok", "Partial"} /\ lk.body.link
  THEN { <<"label", p[1]>> : p \in lk.keys[1] } \cup { <<"attr", p[1]>> : p \in {q \in lk.keys[2] : HasAttr(blk.body, q[1])} }
  ELSE IF lk.res = "NoKeys" /\ bs.body # Nil /\ bs.body.link THEN {} \* no keys, nothing to attach a link to
  ELSE {}

\* ---- canonical schema keys (C16) ---------------------------------------------------------------
\* schema.NewSchemaKey on a *listing* (sequence) of label pairs and attribute pairs: M sorts labels by index
\* and attributes by name; P: the key is the pair of SETS.
KeyOfListing(ls, as) == << {ls[i] : i \in DOMAIN ls}, {as[i] : i \in DOMAIN as} >>
=============================================================================
