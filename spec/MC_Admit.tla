------------------------------- MODULE MC_Admit -------------------------------
(***************************************************************************)
(* The space of small schemas around the acceptance rules of Admit.tla.    *)
(* Every state is one (schema, document) pair; TLC evaluates Accept and     *)
(* prints the case; the harness builds the real schema, compares            *)
(* Validate() with Accept and, for accepted schemas, runs every query at    *)
(* every position of the document (C01).                                    *)
(***************************************************************************)
EXTENDS Admit, TLC, Json
CONSTANTS Mode,       \* "attr" | "block"
          EmitEvery
VARIABLES schema, doc
vars == <<schema, doc>>
EmptyFn == [x \in {} |-> Nil]

LT(t) == [k |-> "littype", t |-> t]
Ref(a, ot, os) == [k |-> "ref", addr |-> a, ofType |-> ot, ofScope |-> os]
Conses == { LT("nil"), LT("string"), [k |-> "oneof", es |-> <<>>], [k |-> "oneof", es |-> <<LT("nil")>>],
            [k |-> "oneof", es |-> <<LT("string"), Ref("none", FALSE, TRUE)>>],
            Ref("none", FALSE, FALSE), Ref("none", TRUE, FALSE), Ref("none", FALSE, TRUE), Ref("scope", FALSE, FALSE),
            Ref("scope", TRUE, FALSE), Ref("noscope", FALSE, FALSE),
            [k |-> "list", e |-> LT("nil")], [k |-> "list", e |-> Ref("none", FALSE, FALSE)], [k |-> "list", e |-> Nil],
            [k |-> "any"], [k |-> "kw"], Nil }
AStepSets == { <<"static", "attrname">>, <<"static">>, <<"static", "label">>, <<"static", "attrval">>, <<>> }
AAddrs == {Nil} \cup { [k |-> "a", asExpr |-> x, asRef |-> y, steps |-> s] : x, y \in BOOLEAN, s \in AStepSets }
Ofts == {Nil} \cup { [k |-> "a", steps |-> s] : s \in { <<"static", "attrname">>, <<"static", "label">> } }
Attrs == { [k |-> "attr", req |-> r, opt |-> o, comp |-> c, addr |-> a, oft |-> f, cons |-> cs] :
             r, o, c \in BOOLEAN, a \in AAddrs, f \in Ofts, cs \in Conses }
PlainAttr == [k |-> "attr", req |-> FALSE, opt |-> TRUE, comp |-> FALSE, addr |-> Nil, oft |-> Nil, cons |-> LT("string")]
Body(as, any, bs) == [k |-> "body", attrs |-> as, any |-> any, blocks |-> bs]

\* ---- attribute mode: one attribute "a" under test next to a plain one (or as AnyAttribute)
AttrSchemas == { Body([a |-> x, name |-> PlainAttr], Nil, EmptyFn) : x \in Attrs }
                \cup { Body(EmptyFn, x, EmptyFn) : x \in { y \in Attrs : y.oft = Nil } }
                \cup { Body([name |-> PlainAttr], x, EmptyFn) : x \in { y \in Attrs : y.oft = Nil /\ y.addr = Nil } }

\* ---- block mode: every combination of the address options on four block shapes
BStepSets == { <<"static", "label">>, <<"static", "attrval">>, <<"static", "attrvalopt", "label">>, <<"static", "label", "label", "label">>,
               <<"static", "attrname">>, <<>> }
BAddrs == {Nil} \cup
  { [k |-> "a", steps |-> s, asRef |-> ar, bodyAsData |-> bd, inferBody |-> ib, bodySelfRef |-> bs, depAsData |-> dd, inferDep |-> id,
     unknownNested |-> un, depSelfRef |-> ds, asTypeOf |-> at] :
      s \in BStepSets, ar, bd, ib, bs, dd, id, un, ds \in BOOLEAN, at \in {"", "type", "nosuch"} }
Shapes == {"dep1", "bare", "two", "anyattr"}
BlockSchemas == { Body([name |-> PlainAttr], Nil, [blk |-> [addr |-> a, shape |-> sh, body |-> Nil]]) : a \in BAddrs, sh \in Shapes }

Schemas == IF Mode = "attr" THEN AttrSchemas ELSE BlockSchemas
Docs == IF Mode = "attr" THEN {"a-str", "a-ref", "a-list", "a-open", "a-obj", "empty"}
        ELSE {"b-full", "b-nolabel", "b-two", "b-dups", "b-open", "b-null"}

Init == schema \in Schemas /\ doc \in Docs
Next == UNCHANGED vars
Spec == Init /\ [][Next]_vars

\* the rules are not vacuous on this universe, and acceptance does not depend on the document
Acc == Accept(schema)
Emit == (EmitEvery = 1 \/ RandomElement(1..EmitEvery) = 1) =>
          PrintT(ToJson([cfg |-> "MC_Admit", schema |-> schema, doc |-> doc, accept |-> Acc]))
\* sanity of the transcription: an accepted body never has both Attributes and AnyAttribute, and every accepted attribute has a flag
AcceptedShape == Acc => /\ (DOMAIN schema.attrs = {} \/ IsNil(schema.any))
                        /\ \A n \in DOMAIN schema.attrs : schema.attrs[n].req \/ schema.attrs[n].opt \/ schema.attrs[n].comp
=============================================================================
