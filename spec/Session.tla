------------------------------ MODULE Session ------------------------------
(***************************************************************************)
(* The language-server session around hcl-lang.                            *)
(*                                                                         *)
(* State : per path the text of every parsed file (Text.tla model), the    *)
(*         fingerprint of everything the caller supplied (schema, files,   *)
(*         functions, collected targets/origins, decoder context) and a    *)
(*         memo of results per input key.                                  *)
(* Steps : Load (a buffer changes), Collect (targets/origins re-collected  *)
(*         and stored by the caller), Query (any library entry point).     *)
(*                                                                         *)
(* The properties are conditions on Query steps:                           *)
(*   C01  the outcome alphabet is {ok, error}                              *)
(*   C02  every range of the result is well formed in the right file       *)
(*   C04  the fingerprint of the caller's data is unchanged                *)
(*   C06  completion edits reach the cursor, tab-stops are well numbered,  *)
(*        at most MaxCandidates entries                                    *)
(*   C12  hover ranges contain the cursor, content is not empty            *)
(*   C13  tokens are sorted, disjoint, non-empty, of an advertised type    *)
(*   C14  a symbol's range lies inside its parent's                        *)
(* C03 (results are a function of the inputs) is the memo rule of Det.     *)
(***************************************************************************)
EXTENDS Text, TLC

CONSTANTS MaxCandidates,   \* 100
          TokenTypes       \* advertised semantic token types

VARIABLES text,     \* [path |-> [file |-> buffer]]  (functions as records keyed by strings)
          starts,   \* same shape: LineStarts of each buffer (derived, cached)
          fp,       \* fingerprint of caller-supplied data; "" = not observed yet
          memo,     \* [key |-> digest]
          edit      \* the last text-moving edit: [p, f, at, dl, db] or NoEdit (C18)

svars == <<text, starts, fp, memo, edit>>
NoEdit == [p |-> "", f |-> "", at |-> 0, dl |-> 0, db |-> 0, app |-> FALSE, oeof |-> <<0, 0, 0>>, neof |-> <<0, 0, 0>>, anch |-> {}]

Has(f, x) == x \in DOMAIN f
Put(f, x, v) == [y \in DOMAIN f \cup {x} |-> IF y = x THEN v ELSE f[y]]
Drop(f, x) == [y \in DOMAIN f \ {x} |-> f[y]]
EmptyFn == [x \in {} |-> 0]

SInit ==
  /\ text = EmptyFn
  /\ starts = EmptyFn
  /\ fp = ""
  /\ memo = EmptyFn
  /\ edit = NoEdit

\* ---- state-changing steps (done by the client / caller) ------------------
Load(p, f, buf, parsed) ==
  LET tp == IF Has(text, p) THEN text[p] ELSE EmptyFn
      sp == IF Has(starts, p) THEN starts[p] ELSE EmptyFn
  IN  /\ text'   = Put(text, p, IF parsed THEN Put(tp, f, buf) ELSE Drop(tp, f))
      /\ starts' = Put(starts, p, IF parsed THEN Put(sp, f, LineStarts(buf)) ELSE Drop(sp, f))
      /\ fp' = ""            \* the caller changed its own data
      /\ memo' = EmptyFn     \* keys are per context version
      /\ edit' = NoEdit

Collect(p, newfp) ==
  /\ fp' = newfp             \* storing new targets/origins is the caller's doing
  /\ memo' = EmptyFn
  /\ UNCHANGED <<text, starts, edit>>

\* The client inserts whole lines `ins` before line `at` of file f (blank or comment lines
\* placed before a top-level item): the only thing that changes is where the text is.
InsertLinesAt(p, f, at, ins, anch) ==
  LET new == InsertLines(text[p][f], at, ins) IN
  /\ Has(text, p) /\ Has(text[p], f) /\ at \in 1..(Len(text[p][f]) + 1)   \* Len+1: appended after an unterminated last line
  /\ text'   = Put(text, p, Put(text[p], f, new))
  /\ starts' = Put(starts, p, Put(starts[p], f, LineStarts(new)))
  /\ edit' = [p |-> p, f |-> f, at |-> at, dl |-> Len(ins), db |-> InsBytes(ins),
               app |-> (at = Len(text[p][f]) + 1), oeof |-> EofPos(text[p][f]), neof |-> EofPos(new), anch |-> anch]
  /\ fp' = "" /\ memo' = EmptyFn

\* C18: a position reported before the edit and the corresponding one reported after it
\* pr = <<b, l, c, b2, l2, c2>>
\* (when lines are appended after an unterminated last line, the old end of the buffer IS the insertion point: a result
\*  position there may denote the end of the buffer, which moves to the new end, or the end of the last item, which stays)
MovedOK(pr) == \/ ShiftPos(<<>>, edit.at, edit.dl, edit.db, pr[1], pr[2], pr[3]) = <<pr[4], pr[5], pr[6]>>
               \/ edit.app /\ <<pr[1], pr[2], pr[3]>> = edit.oeof /\ <<pr[4], pr[5], pr[6]>> = edit.neof
               \* ... or just behind the line terminator that the appended text begins with (the end of the last item's line)
               \/ edit.app /\ <<pr[1], pr[2], pr[3]>> = edit.oeof /\ <<pr[4], pr[5], pr[6]>> = <<edit.oeof[1] + 1, edit.oeof[2] + 1, 1>>
               \* likewise where the parser says the root body of the file begins (the first token that is not a comment,
               \* possibly the line end after a block comment): logged before and after by the harness
               \/ pr \in edit.anch
BadMoves(obs) == {i \in DOMAIN obs.pairs : ~MovedOK(obs.pairs[i])}

\* ---- predicates on a query observation ------------------------------------
Statuses == {"ok", "error"}

Total(obs) == \A s \in DOMAIN obs.hist : obs.hist[s] > 0 => s \in Statuses

\* r = <<file, sb, sl, sc, eb, el, ec, tag, path>> : the path the range is reported for
RangeOK(r) ==
  /\ Has(text, r[9]) /\ Has(text[r[9]], r[1])
  /\ WFRangeIn(text[r[9]][r[1]], starts[r[9]][r[1]], r)

BadRanges(obs) == {i \in DOMAIN obs.rs : ~RangeOK(obs.rs[i])}

\* completion edits: <<startByte, endByte, cursorByte>> in file f
EditOK(p, f, e) ==
  /\ e[1] <= e[2]
  /\ e[1] <= e[3]
  /\ \/ e[2] >= e[3]
     \/ BlankBetween(text[p][f], starts[p][f], e[2], e[3])

BadEdits(p, f, obs) == {i \in DOMAIN obs.ed : ~EditOK(p, f, obs.ed[i])}

\* tab-stop numbering: non-zero stops pairwise distinct and forming 1..n
NonZero(s) == SelectSeq(s, LAMBDA x : x # 0)
SeqRange(s) == {s[i] : i \in DOMAIN s}
StopsOK(s) ==
  LET nz == NonZero(s) IN
  /\ Cardinality(SeqRange(nz)) = Len(nz)
  /\ \A a, b \in SeqRange(nz) : \A x \in a..b : x \in SeqRange(nz)
  /\ \A i \in DOMAIN s : s[i] = 0 => i = Len(s)            \* the final stop is last

BadStops(obs) == {i \in DOMAIN obs.st : ~StopsOK(obs.st[i])}

HoverOK(h) == h[1] <= h[3] /\ h[3] < h[2]
BadHovers(obs) == {i \in DOMAIN obs.hv : ~HoverOK(obs.hv[i])}

\* tokens: <<type, startByte, endByte>> in result order
TokensOK(tk) ==
  /\ \A i \in DOMAIN tk : tk[i][2] < tk[i][3] /\ tk[i][1] \in TokenTypes
  /\ \A i \in 1..(Len(tk) - 1) : tk[i][3] <= tk[i + 1][2]
EmptyTokens(tk)   == {i \in DOMAIN tk : tk[i][2] >= tk[i][3]}
UnknownTokens(tk) == {i \in DOMAIN tk : tk[i][1] \notin TokenTypes}
OverlapTokens(tk) == {i \in DOMAIN tk : i < Len(tk) /\ tk[i][3] > tk[i + 1][2]}

\* symbols: <<parentIndex (0 = top), startByte, endByte>> in pre-order
InvertedSymbols(sy) == {i \in DOMAIN sy : sy[i][2] > sy[i][3]}
BadSymbols(sy) ==
  {i \in DOMAIN sy : /\ sy[i][2] <= sy[i][3]
                     /\ sy[i][1] # 0
                     /\ sy[sy[i][1]][2] <= sy[sy[i][1]][3]
                     /\ ~(sy[sy[i][1]][2] <= sy[i][2] /\ sy[i][3] <= sy[sy[i][1]][3])}
\* siblings are in source order
UnorderedSymbols(sy) ==
  {i \in DOMAIN sy : \E j \in DOMAIN sy : j < i /\ sy[j][1] = sy[i][1] /\ sy[j][2] > sy[i][2]}

\* ---- the query step ---------------------------------------------------------
FrameOK(obs) == obs.fp = "" \/ fp = "" \/ obs.fp = fp

\* Query changes nothing the caller supplied; its outcome is ok or error.
Query(k, p, f, obs) ==
  /\ Total(obs)
  /\ FrameOK(obs)
  /\ fp' = IF obs.fp # "" /\ fp = "" THEN obs.fp ELSE fp
  /\ UNCHANGED <<text, starts, memo, edit>>

\* C03: a (key, digest) report is consistent with what was seen before for that key
Det(key, dg) ==
  /\ Has(memo, key) => memo[key] = dg
  /\ memo' = Put(memo, key, dg)
  /\ UNCHANGED <<text, starts, fp, edit>>

=============================================================================
