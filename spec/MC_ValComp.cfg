SPECIFICATION Spec
INVARIANTS LocalOnlyInside NotItself
CONSTRAINT Emit
CHECK_DEADLOCK FALSE
