SPECIFICATION Spec
INVARIANTS LocalOnlyInside NotItself OwnBlockHidden
CONSTRAINT Emit
CHECK_DEADLOCK FALSE
