------------------------------ MODULE MC_Body ------------------------------
(***************************************************************************)
(* Exhaustive universe for BodyRules (C07, C15, C16): every combination of *)
(* a block schema (static attributes / blocks / extensions / dependent     *)
(* bodies incl. a second level keyed by an attribute), a block written     *)
(* with a label, a body of up to MaxItems items from a palette, and a      *)
(* cursor.  TLC checks the relations between the reference operators on    *)
(* every state and prints (a sample of) the states as JSON cases which the *)
(* harness replays against the real decoder (direction A).                 *)
(***************************************************************************)
EXTENDS BodyRules, Json, TLC

CONSTANTS Mode,       \* "body": C07/C15 universe;  "dep": C16 universe (probe attributes, key permutations)
          Quick,      \* TRUE: the small universe of the quick tier
          MaxItems,   \* body length
          EmitEvery   \* emit one case per EmitEvery states (1 = all)

VARIABLES schema, doc, cur
vars == <<schema, doc, cur>>

A(req, opt, comp, depr) == [req |-> req, opt |-> opt, comp |-> comp, dep |-> FALSE, depr |-> depr, dflt |-> Nil]
Blk(ls, body, deps, min, max) == [labels |-> ls, body |-> body, deps |-> deps, min |-> min, max |-> max, depr |-> FALSE]
Body(attrs, blocks, ext) == [attrs |-> attrs, blocks |-> blocks, any |-> FALSE, ext |-> ext, link |-> FALSE]
Str(v) == [k |-> "str", v |-> v]

SAttrs == IF Quick THEN
  { [a |-> A(FALSE, TRUE, FALSE, FALSE)],
    [a |-> A(TRUE, FALSE, FALSE, FALSE), ab |-> A(FALSE, FALSE, TRUE, FALSE)] }
  ELSE
  { EmptyFn,
    [a |-> A(FALSE, TRUE, FALSE, FALSE)],
    [a |-> A(TRUE, FALSE, FALSE, FALSE), ab |-> A(FALSE, FALSE, TRUE, FALSE)],
    [a |-> A(FALSE, TRUE, TRUE, FALSE), ab |-> A(FALSE, TRUE, FALSE, TRUE)] }

Leaf == Body(EmptyFn, EmptyFn, NoExt)
NBody == Body([n |-> A(TRUE, FALSE, FALSE, FALSE)], EmptyFn, NoExt)

SBlocks == IF Quick THEN
  { [k |-> Blk(<<>>, Leaf, <<>>, 0, 1)],
    [k |-> Blk(<<>>, NBody, <<>>, 2, 0), ab |-> Blk(<<>>, Leaf, <<>>, 0, 0)] }   \* min 2: one static block plus a dynamic one is enough
  ELSE
  { EmptyFn,
    [k |-> Blk(<<>>, Leaf, <<>>, 0, 1)],
    [k |-> Blk(<<>>, NBody, <<>>, 1, 0), ab |-> Blk(<<>>, Leaf, <<>>, 0, 0)],
    [k |-> Blk(<<>>, NBody, <<>>, 2, 0)],
    [k |-> Blk(<<>>, Nil, <<>>, 0, 2)] }

Exts == IF Quick THEN { NoExt, [count |-> TRUE, forEach |-> TRUE, dyn |-> TRUE] }
        ELSE { NoExt, [count |-> TRUE, forEach |-> FALSE, dyn |-> FALSE], [count |-> FALSE, forEach |-> FALSE, dyn |-> TRUE],
               [count |-> TRUE, forEach |-> TRUE, dyn |-> TRUE] }

Sel(dflt) == [req |-> FALSE, opt |-> TRUE, comp |-> FALSE, dep |-> TRUE, depr |-> FALSE, dflt |-> dflt]
DK == Blk(<<>>, NBody, <<>>, 0, 1)

\* dependent bodies registered for block type r
DepSets ==
  LET d2 == [attrs |-> [d |-> A(TRUE, FALSE, FALSE, FALSE)], blocks |-> EmptyFn, any |-> FALSE, ext |-> NoExt, link |-> TRUE]
      d3 == [attrs |-> [d |-> A(FALSE, TRUE, FALSE, FALSE)], blocks |-> [dk |-> DK], any |-> FALSE, ext |-> NoExt, link |-> TRUE]
      d4(dflt) == [attrs |-> [sel |-> Sel(dflt), d |-> A(FALSE, TRUE, FALSE, FALSE)], blocks |-> EmptyFn, any |-> FALSE, ext |-> NoExt, link |-> TRUE]
      s2 == [attrs |-> [sel |-> Sel(Nil), s2 |-> A(FALSE, TRUE, FALSE, FALSE)], blocks |-> [dk |-> DK], any |-> FALSE, ext |-> NoExt, link |-> TRUE]
      X == << <<0, "x">> >>
  IN IF Quick THEN
       { << [lk |-> X, ak |-> <<>>, body |-> d3] >>,
         << [lk |-> X, ak |-> <<>>, body |-> d4(Nil)], [lk |-> X, ak |-> << <<"sel", Str("v")>> >>, body |-> s2] >> }
     ELSE
       { <<>>,
         << [lk |-> X, ak |-> <<>>, body |-> d2] >>,
         << [lk |-> X, ak |-> <<>>, body |-> d3], [lk |-> << <<0, "xx">> >>, ak |-> <<>>, body |-> d2] >>,
         << [lk |-> X, ak |-> <<>>, body |-> d4(Nil)], [lk |-> X, ak |-> << <<"sel", Str("v")>> >>, body |-> s2] >>,
         << [lk |-> X, ak |-> <<>>, body |-> d4(Str("v"))], [lk |-> X, ak |-> << <<"sel", Str("v")>> >>, body |-> s2] >> }

\* ---- "dep" mode (C16): every dependent body owns a uniquely named probe attribute p_*; key labels at index 0 and/or 1
P == A(FALSE, TRUE, FALSE, FALSE)
PM(m, d) == [req |-> FALSE, opt |-> TRUE, comp |-> FALSE, dep |-> FALSE, depr |-> FALSE, dflt |-> Nil, mods |-> m, desc |-> d]
L(dep, comp, m, d) == [dep |-> dep, comp |-> comp, mods |-> m, desc |-> d]
LabelCfgs == { <<L(TRUE, TRUE, <<"m-l0">>, "label zero"), L(TRUE, FALSE, <<"m-l1a", "m-l1b">>, "label one")>>,
               <<L(TRUE, TRUE, <<>>, "label zero"), L(FALSE, FALSE, <<"m-l1">>, "")>>,
               <<L(FALSE, FALSE, <<"m-l0">>, ""), L(TRUE, TRUE, <<>>, "label one")>> }
\* a nested block with two labels and two attributes whose modifiers differ (aliasing of modifier slices shows here)
NB == [labels |-> <<L(FALSE, FALSE, <<"m-n0">>, "n zero"), L(FALSE, FALSE, <<"m-n1">>, "n one")>>, min |-> 0, max |-> 0, depr |-> FALSE, deps |-> <<>>,
       mods |-> <<"m-nb">>, desc |-> "nested block",
       body |-> Body([na |-> PM(<<"m-na">>, "attr na"), nz |-> PM(<<"m-nz">>, "attr nz")], EmptyFn, NoExt)]
KeyX(lc) == SelectSeq(<< <<0, "x">>, <<1, "y">> >>, LAMBDA p : lc[p[1] + 1].dep)
DepSetsFor(X) ==
  LET pd(n, extra) == [attrs |-> ([a \in {n} |-> PM(<<"m-" \o n>>, "desc of " \o n)] @@ extra), blocks |-> EmptyFn, any |-> FALSE, ext |-> NoExt, link |-> TRUE, desc |-> "body of " \o n]
  IN { <<>>,
       << [lk |-> X, ak |-> <<>>, body |-> pd("p_d2", EmptyFn)] >>,
       << [lk |-> X, ak |-> <<>>, body |-> [pd("p_d4", [sel |-> Sel(Nil)]) EXCEPT !.link = FALSE]],
          [lk |-> X, ak |-> << <<"sel", Str("v")>> >>, body |-> pd("p_s2", [sel |-> Sel(Nil)])] >>,
       << [lk |-> X, ak |-> <<>>, body |-> pd("p_d4", [sel |-> Sel(Str("v"))])],
          [lk |-> X, ak |-> << <<"sel", Str("v")>> >>, body |-> pd("p_s2", [sel |-> Sel(Nil)])],
          [lk |-> X, ak |-> << <<"sel", [k |-> "ref", v |-> "z.y"]>> >>, body |-> pd("p_s3", [sel |-> Sel(Nil)])] >> }
\* a key attribute in the static body as well: keys = labels + attribute at the first level
StaticSel == { EmptyFn, [sel |-> Sel(Nil)] }
RSchemasDep == UNION { { [Blk(lc, Body([p_st |-> PM(<<"m-st">>, "static probe")] @@ ss, [nb |-> NB], NoExt), ds, 0, 0) EXCEPT !.depr = FALSE]
                          @@ [mods |-> <<"m-r1", "m-r2">>, desc |-> "block r"] : ds \in DepSetsFor(KeyX(lc)), ss \in StaticSel } : lc \in LabelCfgs }

\* zero levels: no dependent body, and not even a static one
RBodyless == [Blk(<<>>, Nil, <<>>, 0, 0) EXCEPT !.depr = FALSE] @@ [mods |-> <<"m-r1">>, desc |-> "block without body"]
\* ---- "label" mode (C07, label completion): two key labels, values shared between keys and separated by other keys
LKey(a, b) == << <<0, a>>, <<1, b>> >>
LBody(n) == [attrs |-> [a \in {n} |-> A(FALSE, TRUE, FALSE, FALSE)], blocks |-> EmptyFn, any |-> FALSE, ext |-> NoExt, link |-> FALSE]
LabelDeps == { << [lk |-> LKey("aws", "instance"), ak |-> <<>>, body |-> LBody("p1")], [lk |-> LKey("aws", "zone"), ak |-> <<>>, body |-> LBody("p2")],
                  [lk |-> LKey("gcp", "instance"), ak |-> <<>>, body |-> LBody("p3")], [lk |-> LKey("gcp", "image"), ak |-> <<>>, body |-> LBody("p4")] >>,
               << [lk |-> LKey("b", "x"), ak |-> <<>>, body |-> LBody("p1")], [lk |-> LKey("a", "x"), ak |-> <<>>, body |-> LBody("p2")],
                  [lk |-> << <<0, "a">> >>, ak |-> <<>>, body |-> LBody("p3")] >> }
RSchemasLabel == { Blk(<<[dep |-> TRUE, comp |-> c0], [dep |-> TRUE, comp |-> c1]>>, Body([a |-> A(FALSE, TRUE, FALSE, FALSE)], EmptyFn, NoExt), ds, 0, 0) :
                     c0, c1 \in BOOLEAN, ds \in LabelDeps }
RSchemas == IF Mode = "dep" THEN RSchemasDep \cup {RBodyless} ELSE IF Mode = "label" THEN RSchemasLabel ELSE
            { Blk(<<[dep |-> TRUE, comp |-> TRUE]>>, Body(sa, sb, e), ds, 0, 0) : sa \in SAttrs, sb \in SBlocks, e \in Exts, ds \in DepSets }

Root(r) == Body([top |-> A(FALSE, TRUE, FALSE, FALSE)], [r |-> r], NoExt)

\* ---- documents ----
At(n) == [k |-> "attr", name |-> n, val |-> [k |-> "other"]]
AtV(n, v) == [k |-> "attr", name |-> n, val |-> v]
B(t, ls, body) == [k |-> "block", type |-> t, labels |-> ls, body |-> body]

Palette == IF Quick THEN
  { At("a"), At("d"), At("zz"), AtV("sel", Str("v")), B("k", <<>>, <<>>), B("dk", <<>>, <<At("n")>>), B("uu", <<>>, <<At("q")>>),
    B("dynamic", <<"k">>, <<At("for_each"), B("content", <<>>, <<>>)>>) }
  ELSE
  { At("a"), At("ab"), At("d"), At("zz"), At("count"), AtV("sel", Str("v")), AtV("sel", Str("w")), AtV("sel", [k |-> "ref", v |-> "z.y"]),
    B("k", <<>>, <<>>), B("k", <<"extra">>, <<At("n"), At("m")>>), B("dk", <<>>, <<At("n")>>), B("dk", <<>>, <<>>), B("uu", <<>>, <<At("q")>>),
    B("ab", <<>>, <<>>),
    B("dynamic", <<"k">>, <<At("for_each"), B("content", <<>>, <<>>)>>),
    B("dynamic", <<"dk">>, <<B("content", <<>>, <<At("n")>>), B("content", <<>>, <<>>)>>),
    B("dynamic", <<>>, <<>>) }

\* HCL rejects (and drops) a second definition of an attribute: such bodies are not in the universe
NoDupAttrs(b) == \A i, j \in AttrsOf(b) : b[i].name = b[j].name => i = j
Ref(v) == [k |-> "ref", v |-> v]
NBItem == B("nb", <<"x", "y">>, <<At("na"), At("nz"), At("unknown")>>)
Probes == << NBItem, AtV("p_st", Ref("ref.x")), AtV("p_d2", Ref("ref.x")), AtV("p_d4", Ref("ref.x")), AtV("p_s2", Ref("ref.x")), AtV("p_s3", Ref("ref.x")) >>
SelVals == { <<>>, <<AtV("sel", Str("v"))>>, <<AtV("sel", Str("w"))>>, <<AtV("sel", Ref("z.y"))>> }
BodiesDep == { sv \o Probes : sv \in SelVals } \cup { Probes \o sv : sv \in SelVals }
Bodies == IF Mode = "dep" THEN BodiesDep ELSE IF Mode = "label" THEN { <<>>, <<At("a")>> } ELSE { b \in UNION { [1..n -> Palette] : n \in 0..MaxItems } : NoDupAttrs(b) }
Labels == IF Mode = "dep" THEN { <<"x", "y">>, <<"x", "z">>, <<"q", "y">>, <<"x">>, <<>> }
          ELSE IF Mode = "label" THEN { <<"aws", "instance">>, <<"aws", "zone">>, <<"gcp", "i">>, <<"aws", "">>, <<"a", "x">>, <<"", "x">>, <<"aws">> }
          ELSE IF Quick THEN { <<"x">>, <<"y">> } ELSE { <<"x">>, <<"y">>, <<"xx">>, <<>>, <<"x", "surplus">> }
Docs == { << B("r", ls, b) >> : ls \in Labels, b \in Bodies }

Cursors == IF Mode = "dep" THEN { [kind |-> "none", path |-> <<>>, prefix |-> "", index |-> 0] } ELSE
  IF Mode = "label" THEN { [kind |-> "label", path |-> <<1>>, prefix |-> p, index |-> i] : p \in {"", "a", "i", "z", "x", "in"}, i \in {0, 1} } ELSE
  { [kind |-> "gap", path |-> <<1>>, prefix |-> p, index |-> 0] : p \in (IF Quick THEN {"", "d"} ELSE {"", "a", "d", "c", "dy"}) }
  \cup { [kind |-> "type", path |-> <<1, j>>, prefix |-> p, index |-> 0] : j \in 1..MaxItems, p \in {"", "d"} }
  \cup { [kind |-> "label", path |-> <<1>>, prefix |-> p, index |-> 0] : p \in (IF Quick THEN {""} ELSE {"", "x"}) }

\* a label cursor sits behind the typed prefix of the label it is in
TypeCursorFits == cur.kind = "type" => /\ cur.path[2] <= Len(doc[1].body) /\ doc[1].body[cur.path[2]].k = "block"
                                      /\ LET t == doc[1].body[cur.path[2]].type IN
                                           \* strictly inside the type (behind the whole type the parser no longer sees the cursor in it)
                                           cur.prefix = "" \/ (cur.prefix = "d" /\ t \in {"dk", "dynamic"})
CursorFits == cur.kind = "label" => /\ cur.index + 1 <= Len(doc[1].labels)
                                    /\ LET t == doc[1].labels[cur.index + 1] IN
                                         \/ cur.prefix = "" \/ (cur.prefix = "a" /\ t \in {"aws", "a"}) \/ (cur.prefix = "i" /\ t \in {"instance", "i"})
                                         \/ (cur.prefix = "in" /\ t = "instance") \/ (cur.prefix = "z" /\ t = "zone") \/ (cur.prefix = "x" /\ t = "x")
Init == schema \in {Root(r) : r \in RSchemas} /\ doc \in Docs /\ cur \in Cursors /\ CursorFits /\ TypeCursorFits
Next == UNCHANGED vars
Spec == Init /\ [][Next]_vars

\* ---- what TLC checks on every state of the universe ---------------------------------------
RS == schema.blocks["r"]
E == Effective(RS, doc[1])
Pfx == IF cur.kind = "gap" THEN cur.prefix ELSE ""

\* M => P for body completion
ImplIsSpec == CandOK(E.schema, doc[1].body, Pfx, CandM(E.schema, doc[1].body, Pfx))
\* accepting a candidate never creates an unexpected / surplus diagnostic
AcceptSafeInv == AcceptSafe(E.schema, doc[1].body, Pfx, E.unknown)
\* inside a block whose dependent body could not be resolved nothing is unexpected
UnknownQuiet == RS.body # Nil /\ E.unknown => \A d \in Diags(schema, doc, <<>>, FALSE) : d[1] \in {"unexpectedAttr", "unexpectedBlock"} => Len(d[2]) <= 1
\* candidates never contain what is already present or not declarable
NoDupOffer == \A c \in CandP(E.schema, doc[1].body, Pfx) : ~HasAttr(doc[1].body, c) \/ Has(E.schema.blocks, c)

\* sensitivity: the repaired defect must violate ImplIsSpec
BuggyIsSpec == CandOK(E.schema, doc[1].body, Pfx, CandBuggy(E.schema, doc[1].body, Pfx))

\* C16 on the model: the schema the merge produces knows exactly static + selected dependent attributes
DepAgree == LET lk == Lookup(RS, doc[1]) IN
            RS.body # Nil =>
            DOMAIN E.schema.attrs = DOMAIN RS.body.attrs \cup (IF lk.res \in {"Ok", "Partial"} THEN DOMAIN lk.body.attrs ELSE {})

\* label completion on the model: the values are a set (no duplicates to speak of) and all carry the typed prefix
LabelDistinct == cur.kind = "label" => \A v \in LabelCandP(RS, cur.index, cur.prefix) : IsPrefix(cur.prefix, v)
Emit == (EmitEvery = 1 \/ RandomElement(1..EmitEvery) = 1) =>
          PrintT(ToJson([cfg |-> "MC_Body", schema |-> schema, doc |-> doc, cur |-> cur, feat |-> Mode = "dep"]))
=============================================================================
