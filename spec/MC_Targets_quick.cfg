SPECIFICATION Spec
CONSTANTS MaxItems = 2
INVARIANTS OnlyKnown AddrNonEmpty
CONSTRAINT Emit
CHECK_DEADLOCK FALSE
