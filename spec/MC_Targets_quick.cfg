SPECIFICATION Spec
CONSTANTS MaxItems = 1
INVARIANTS OnlyKnown AddrNonEmpty
CONSTRAINT Emit
CHECK_DEADLOCK FALSE
