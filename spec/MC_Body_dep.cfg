SPECIFICATION Spec
CONSTANTS
  Mode = "dep"
  Quick = FALSE
  MaxItems = 0
  EmitEvery = 1
INVARIANTS DepAgree UnknownQuiet
CONSTRAINT Emit
CHECK_DEADLOCK FALSE
