------------------------------- MODULE MC_Sig -------------------------------
(* Exhaustive universe of call trees x locations; M => P on the model; cases printed for replay. *)
EXTENDS Signature, Json, TLC
CONSTANTS MaxRootArgs
VARIABLES tree, loc
vars == <<tree, loc>>

Lit == [k |-> "lit"]
Call(f, as, closed, tc) == [k |-> "call", fn |-> f, args |-> as, closed |-> closed, tc |-> tc /\ Len(as) > 0]
FnNames == {"f0", "f1", "f2", "fv", "f1v", "uf"}
InnerFns == {"f0", "f1", "fv", "uf"}
Inner == {Lit} \cup { Call(f, as, TRUE, FALSE) : f \in InnerFns, as \in {<<>>, <<Lit>>, <<Lit, Lit>>} }
ArgLists == UNION { [1..n -> Inner] : n \in 0..MaxRootArgs }
Trees == { Call(f, as, cl, tc) : f \in FnNames, as \in ArgLists, cl \in BOOLEAN, tc \in BOOLEAN }

LocsOf(c, path) ==
  { [path |-> path, kind |-> k, i |-> 0] : k \in {"name", "open"} \cup (IF c.closed THEN {"preclose", "after"} ELSE {}) }
  \cup { [path |-> path, kind |-> k, i |-> i] : k \in {"inarg", "argend"}, i \in {j \in DOMAIN c.args : c.args[j].k = "lit"} }
  \cup { [path |-> path, kind |-> "argend", i |-> i] : i \in {j \in DOMAIN c.args : c.args[j].k = "call"} }
  \cup { [path |-> path, kind |-> k, i |-> i] : k \in {"precomma", "postcomma"}, i \in {j \in DOMAIN c.args : j < Len(c.args) \/ c.tc} }
Locs(T) == LocsOf(T, <<>>) \cup UNION { IF T.args[i].k = "call" THEN LocsOf(T.args[i], <<i>>) ELSE {} : i \in DOMAIN T.args }

Init == tree \in Trees /\ loc \in Locs(tree)
Next == UNCHANGED vars
Spec == Init /\ [][Next]_vars

ImplAllowed == ~Unclosed(tree, loc) => Impl(tree, loc) \in Allowed(tree, loc)
AllowedValid == \A r \in Allowed(tree, loc) : ValidSig(r)
\* sensitivity: an implementation that counts the argument list length instead of the slot
ImplWrong == Sig("f2", 1) \notin Allowed(tree, loc) \/ loc.kind # "open"

Emit == PrintT(ToJson([tree |-> tree, loc |-> loc]))
=============================================================================
