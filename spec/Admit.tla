------------------------------- MODULE Admit -------------------------------
(***************************************************************************)
(* Which schemas the schema package accepts (C01 quantifies over "every    *)
(* schema the schema package accepts"): a transcription of the Validate()  *)
(* methods of schema/*.go on abstract schema records.                       *)
(*                                                                         *)
(* What Validate does NOT look at is part of the model, because it decides  *)
(* what an accepted schema may still contain: dependent bodies, labels and  *)
(* TargetableAs are never validated.  (Constraint-less attributes, the      *)
(* elements of collection constraints and AnyAttribute were not looked at   *)
(* either until the repairs 192711c / 4447623 - see DESIGN.md.)             *)
(***************************************************************************)
EXTENDS Sequences, FiniteSets, Naturals

Nil == [k |-> "nil"]
IsNil(x) == x.k = "nil"

\* address steps are named by their kind: "static" | "label" | "attrval" | "attrvalopt" | "attrname"
AttrStepsOK(steps)  == \A i \in DOMAIN steps : steps[i] \notin {"label", "attrval", "attrvalopt"}   \* Address.AttributeValidate
BlockStepsOK(steps) == \A i \in DOMAIN steps : steps[i] # "attrname"                               \* Address.BlockValidate

\* constraints: [k |-> "littype", t], [k |-> "oneof", es], [k |-> "ref", addr \in {"none","noscope","scope"}, ofType, ofScope],
\*              [k |-> "list", e], [k |-> "any"], [k |-> "kw"], Nil (no constraint at all)
RECURSIVE ConsOK(_)
\* (a missing constraint is only rejected at the attribute itself: as the element of a list it is tolerated)
ConsOK(c) ==
  CASE c.k = "littype" -> c.t # "nil"                                           \* LiteralType.Validate
    [] c.k = "oneof"   -> \A i \in DOMAIN c.es : ConsOK(c.es[i])                \* OneOf.Validate (an empty OneOf is fine)
    [] c.k = "ref"     -> /\ ~(c.addr # "none" /\ (c.ofType \/ c.ofScope))      \* Reference.Validate
                          /\ c.addr # "noscope"
                          /\ (c.ofType \/ c.ofScope \/ c.addr # "none")
    [] c.k = "list"    -> IsNil(c.e) \/ ConsOK(c.e)                             \* List/Set/Map.Validate: the element, if there is one
    [] c.k = "nil"     -> FALSE                                                 \* AttributeSchema.Validate: Constraint must be set
    [] OTHER           -> TRUE   \* AnyExpression / Keyword / TypeDeclaration ...: not Validatable

\* AttributeSchema.Validate
AttrOK(a) ==
  /\ ~(a.opt /\ a.req)
  /\ ~(a.req /\ a.comp)
  /\ (a.req \/ a.opt \/ a.comp)
  /\ (~IsNil(a.addr) => (a.addr.asExpr \/ a.addr.asRef) /\ AttrStepsOK(a.addr.steps))
  /\ (~IsNil(a.oft) => AttrStepsOK(a.oft.steps))
  /\ ConsOK(a.cons)

\* BlockAddrSchema.Validate
BlockAddrOK(b) ==
  /\ BlockStepsOK(b.steps)
  /\ (b.inferBody => b.bodyAsData)
  /\ (b.inferDep => b.depAsData)
  /\ (b.depSelfRef => b.inferDep)

\* BodySchema.Validate / BlockSchema.Validate (mutually recursive; DependentBody is skipped)
RECURSIVE BodyOK(_)
BlockOKWith(bl, bodyOK) == (~IsNil(bl.addr) => BlockAddrOK(bl.addr)) /\ bodyOK
BodyOK(b) ==
  /\ ~(DOMAIN b.attrs # {} /\ ~IsNil(b.any))
  /\ (~IsNil(b.any) => AttrOK(b.any))
  /\ \A n \in DOMAIN b.attrs : AttrOK(b.attrs[n])
  /\ \A t \in DOMAIN b.blocks : BlockOKWith(b.blocks[t], IsNil(b.blocks[t].body) \/ BodyOK(b.blocks[t].body))

Accept(schema) == BodyOK(schema)
=============================================================================
