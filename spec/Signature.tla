------------------------------ MODULE Signature ------------------------------
(***************************************************************************)
(* C20: signature help.                                                    *)
(*                                                                         *)
(* A call tree:  [k |-> "call", fn, args : Seq(expr), closed, tc]          *)
(*               (tc = trailing comma after the last argument)             *)
(*               [k |-> "lit"]                                             *)
(* A location:   [path : Seq(1..), kind, i]  - path = argument indices     *)
(*               from the root call down to the located call; kind says    *)
(*               where in that call the cursor is:                         *)
(*   "name" on the function name      "open"  right after (                *)
(*   "inarg" inside argument i        "argend" at the end of argument i    *)
(*   "precomma" in the blank between argument i and its comma              *)
(*   "postcomma" right after the comma that follows argument i             *)
(*   "preclose" in the blank before )   "after" right after )              *)
(*                                                                         *)
(* P:  Allowed(T, loc) - the outcomes the statement admits.                *)
(* M:  Impl(T, loc)    - transcription of decoder.SignatureAtPos           *)
(*     (pre-order visit, last known call wins, "too many arguments"        *)
(*     returns without clearing the outer signature = FallBackToOuter).    *)
(***************************************************************************)
EXTENDS Integers, Sequences, FiniteSets

Fns == [f0  |-> [fixed |-> <<>>, var |-> FALSE],
        f1  |-> [fixed |-> <<"a">>, var |-> FALSE],
        f2  |-> [fixed |-> <<"a", "b">>, var |-> FALSE],
        fv  |-> [fixed |-> <<>>, var |-> TRUE],
        f1v |-> [fixed |-> <<"a">>, var |-> TRUE]]
Known(f) == f \in DOMAIN Fns
Params(f) == Fns[f].fixed \o (IF Fns[f].var THEN <<"v">> ELSE <<>>)
Parameterless(f) == Params(f) = <<>>

None == [k |-> "none"]
Sig(f, active) == [k |-> "sig", fn |-> f, params |-> Params(f), active |-> active]

RECURSIVE CallAt(_, _)
CallAt(T, path) == IF path = <<>> THEN T ELSE CallAt(T.args[path[1]], Tail(path))

Depth(loc) == Len(loc.path)
CallD(T, loc, d) == CallAt(T, SubSeq(loc.path, 1, d))

\* is the cursor inside the parentheses of the call at depth d of the chain?
InParens(loc, d) == d < Depth(loc) \/ loc.kind \notin {"name", "after"}
\* is the cursor on the call at all (name included)?  "after" sits on the closing edge: left open
OnCall(loc, d) == d < Depth(loc) \/ loc.kind # "after"

\* 0-based index of the argument slot containing the cursor
Slot(T, loc, d) ==
  IF d < Depth(loc) THEN loc.path[d + 1] - 1
  ELSE LET c == CallD(T, loc, d) n == Len(c.args) IN
       CASE loc.kind = "open"      -> 0
         [] loc.kind \in {"inarg", "argend", "precomma"} -> loc.i - 1
         [] loc.kind = "postcomma" -> loc.i
         [] loc.kind = "preclose"  -> IF n = 0 THEN 0 ELSE IF c.tc THEN n ELSE n - 1
         [] OTHER -> 0

\* P: resolve from the innermost call outwards
RECURSIVE Resolve(_, _, _)
Resolve(T, loc, d) ==
  IF d < 0 THEN {None}
  ELSE LET f == CallD(T, loc, d).fn IN
       IF ~Known(f) THEN Resolve(T, loc, d - 1)
       ELSE IF Parameterless(f)
            THEN IF OnCall(loc, d) THEN {Sig(f, 0)}
                 ELSE {Sig(f, 0)} \cup Resolve(T, loc, d - 1)       \* on the closing edge: either reading
       ELSE IF ~InParens(loc, d) THEN Resolve(T, loc, d - 1)
       ELSE LET s == Slot(T, loc, d) n == Len(Params(f)) IN
            IF s < n THEN {Sig(f, s)}
            ELSE IF Fns[f].var THEN {Sig(f, n - 1)}
            ELSE {None} \cup Resolve(T, loc, d - 1)                 \* too many arguments: none (FallBackToOuter tolerated)

\* half-typed calls (no closing parenthesis somewhere on the chain): only "a signature of an enclosing known call
\* with a valid, clamped index - or none"
Unclosed(T, loc) == \E d \in 0..Depth(loc) : ~CallD(T, loc, d).closed
RECURSIVE CallsIn(_)
CallsIn(e) == IF e.k # "call" THEN {} ELSE {e.fn} \cup UNION {CallsIn(e.args[i]) : i \in DOMAIN e.args}
\* (the parser's recovery decides which call extends over the cursor; any known call written in the expression may answer)
Loose(T, loc) ==
  {None} \cup UNION { IF ~Known(f) THEN {}
                      ELSE IF Parameterless(f) THEN {Sig(f, 0)}
                      ELSE {Sig(f, a) : a \in 0..(Len(Params(f)) - 1)} : f \in CallsIn(T) }

Allowed(T, loc) == IF Unclosed(T, loc) THEN Loose(T, loc) ELSE Resolve(T, loc, Depth(loc))

\* M: decoder.SignatureAtPos on well-formed (closed) calls: visit outermost -> innermost, each known call that
\* contains the cursor may overwrite the signature
RECURSIVE Visit(_, _, _, _)
Visit(T, loc, d, acc) ==
  IF d > Depth(loc) THEN acc
  ELSE LET c == CallD(T, loc, d) f == c.fn IN
       IF d = Depth(loc) /\ loc.kind = "after" THEN acc                        \* node range does not contain the cursor
       ELSE IF ~Known(f) THEN Visit(T, loc, d + 1, acc)
       ELSE IF Parameterless(f) THEN Visit(T, loc, d + 1, Sig(f, 0))
       ELSE IF ~InParens(loc, d) THEN Visit(T, loc, d + 1, acc)
       ELSE LET s == Slot(T, loc, d) n == Len(Params(f)) IN
            IF s >= n /\ ~Fns[f].var THEN Visit(T, loc, d + 1, acc)
            ELSE Visit(T, loc, d + 1, Sig(f, IF s >= n THEN n - 1 ELSE s))
Impl(T, loc) == Visit(T, loc, 0, None)

\* result shape, whatever the input: the active parameter is a valid index
ValidSig(r) == r = None \/ (r.params = <<>> /\ r.active = 0) \/ r.active \in 0..(Len(r.params) - 1)
=============================================================================
