SPECIFICATION Spec
CONSTANTS
  MaxLines = 3
  MaxCells = 2
INVARIANTS PosUnique ExactIsWF NoOtherPos ShiftSound LenAdditive AppendSound BlankSound
CHECK_DEADLOCK FALSE
