SPECIFICATION Spec
CONSTANTS MaxItems = 3
INVARIANTS OnlyKnown AddrNonEmpty
CONSTRAINT Emit
CHECK_DEADLOCK FALSE
