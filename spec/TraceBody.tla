------------------------------ MODULE TraceBody ------------------------------
(***************************************************************************)
(* Trace validation for BodyRules: every line is one replayed case         *)
(* (abstract schema, document, cursor) together with what the real         *)
(* decoder answered (projected by the harness).  TLC recomputes the        *)
(* reference operators and records every difference.                       *)
(***************************************************************************)
EXTENDS BodyRules, Json, IOUtils

Trace == ndJsonDeserialize(IOEnv.TRACE)

VARIABLES l, bad, keymemo     \* keymemo: <<set-of-keys, key string>> of the previous Key event, or <<>> (C16 canonicity)
tvars == <<l, bad, keymemo>>
Ev == Trace[l]

\* ---- lexicographic order on names (TLC has none): explicit byte order of the alphabet in use
Alphabet == <<"-", "0", "1", "2", "3", "4", "5", "6", "7", "8", "9", "_", "a", "b", "c", "d", "e", "f", "g", "h", "i", "j", "k", "l", "m",
              "n", "o", "p", "q", "r", "s", "t", "u", "v", "w", "x", "y", "z">>
Ord(c) == IF \E i \in DOMAIN Alphabet : Alphabet[i] = c THEN CHOOSE i \in DOMAIN Alphabet : Alphabet[i] = c ELSE 0
RECURSIVE StrLt(_, _)
StrLt(s, t) ==
  IF Len(t) = 0 THEN FALSE
  ELSE IF Len(s) = 0 THEN TRUE
  ELSE LET a == Ord(SubSeq(s, 1, 1)) b == Ord(SubSeq(t, 1, 1)) IN
       IF a # b THEN a < b ELSE StrLt(SubSeq(s, 2, Len(s)), SubSeq(t, 2, Len(t)))
StrictlySorted(q) == \A i \in 1..(Len(q) - 1) : StrLt(q[i], q[i + 1])

\* ---- schema in force at a body path ------------------------------------------------------
RECURSIVE At(_, _, _, _)
At(s, body, path, unk) ==
  IF path = <<>> THEN [schema |-> s, body |-> body, unknown |-> unk, opaque |-> FALSE, block |-> Nil, item |-> Nil]
  ELSE LET it == body[path[1]] IN
       IF s = Nil \/ it.k # "block" \/ ~Has(s.blocks, it.type) \/ s.blocks[it.type].body = Nil
       THEN [schema |-> Nil, body |-> <<>>, unknown |-> TRUE, opaque |-> TRUE, block |-> Nil, item |-> it]
       ELSE LET e == Effective(s.blocks[it.type], it) IN
            IF Len(path) = 1
            THEN [schema |-> e.schema, body |-> it.body, unknown |-> unk \/ e.unknown, opaque |-> FALSE, block |-> s.blocks[it.type], item |-> it]
            ELSE At(e.schema, it.body, Tail(path), unk \/ e.unknown)

UnderOpaque(op, p) == \E q \in op : Len(q) < Len(p) /\ SubSeq(p, 1, Len(q)) = q

\* ---- C16: every feature sees the effective schema ------------------------------------------
\* probe attribute items (name p_*) of the document with the schema of the body they are written in
RECURSIVE ProbeItems(_, _, _)
ProbeItems(s, body, path) ==
  UNION { IF body[i].k = "attr"
          THEN (IF Len(body[i].name) > 2 /\ SubSeq(body[i].name, 1, 2) = "p_" /\ s # Nil
                THEN {[path |-> path \o <<i>>, known |-> Has(s.attrs, body[i].name)]} ELSE {})
          ELSE IF s = Nil \/ ~Has(s.blocks, body[i].type) \/ s.blocks[body[i].type].body = Nil THEN {}
          ELSE ProbeItems(Effective(s.blocks[body[i].type], body[i]).schema, body[i].body, path \o <<i>>)
        : i \in DOMAIN body }

TopLinks(S, D) ==
  UNION { IF D[i].k = "block" /\ Has(S.blocks, D[i].type)
          THEN { <<<<i>>, x[1], x[2]>> : x \in LinksP(S.blocks[D[i].type], D[i]) } ELSE {} : i \in DOMAIN D }

FeatViol(e) ==
  LET S == e.schema  D == e.doc  O == e.obs
      known == { p.path : p \in {q \in ProbeItems(S, D, <<>>) : q.known} }
      feats == {"tokens", "hover", "targets", "origins"}
  IN  { [l |-> l, prop |-> "C16", what |-> f \o " does not see the body schema selected by the block's dependency keys", case |-> e.case, layout |-> e.layout]
          : f \in {f \in feats : ToSet(O.feat[f]) # known} }
      \cup (IF O.lstatus # "ok" THEN {[l |-> l, prop |-> "C16", what |-> "LinksInFile failed: " \o O.lstatus, case |-> e.case, layout |-> e.layout]}
            ELSE IF ToSet(O.links) # TopLinks(S, D)
            THEN {[l |-> l, prop |-> "C16", what |-> "documentation links are not attached to exactly the selecting labels/attributes", case |-> e.case, layout |-> e.layout]}
            ELSE {})

\* ---- C13 / C12: names, types, labels ---------------------------------------------------------------
RECURSIVE ContainsS(_, _)
ContainsS(s, sub) == IF Len(sub) > Len(s) THEN FALSE ELSE SubSeq(s, 1, Len(sub)) = sub \/ ContainsS(SubSeq(s, 2, Len(s)), sub)
RECURSIVE PKey(_)
PKey(p) == IF p = <<>> THEN "" ELSE IF Len(p) = 1 THEN ToString(p[1]) ELSE ToString(p[1]) \o "." \o PKey(Tail(p))
NExt(e, n) == LET x == e.obs.extn[PKey(n.path)] IN
              IF n.kind = "label" THEN x.labels[n.j] ELSE x.name
NFull(e, n) == e.obs.extn[PKey(n.path)].full
TokType(n) == IF n.kind = "attr" THEN "hcl-attrName" ELSE IF n.kind = "block" THEN "hcl-blockType" ELSE "hcl-blockLabel"

NameViol(e) ==
  LET names == NamesP(e.schema, e.doc, <<>>, <<>>)
      exp == { <<TokType(n), n.mods, NExt(e, n)[1], NExt(e, n)[2]>> : n \in names }
      obs == { <<e.obs.ntoks[i][1], e.obs.ntoks[i][2], e.obs.ntoks[i][3], e.obs.ntoks[i][4]>> : i \in DOMAIN e.obs.ntoks }
      missing == exp \ obs
      extra == obs \ exp
      \* hover: for every name the harness asked about
      hv == e.obs.nhov
      known(h) == { n \in names : n.path = h[1] /\ ((h[2] = "name" /\ n.kind \in {"attr", "block"}) \/ (h[2] = "label" /\ n.kind = "label" /\ n.j = h[3])) }
      hbad == { i \in DOMAIN hv :
                 LET h == hv[i] k == known(h) IN
                 IF k = {} THEN h[5] # -1 /\ FALSE      \* unknown element: nothing is asserted (it may be described as part of an enclosing element)
                 ELSE LET n == CHOOSE n \in k : TRUE
                          rng == IF n.kind = "attr" THEN NFull(e, n) ELSE NExt(e, n) IN
                      ~(h[4] = "ok" /\ h[5] = rng[1] /\ h[6] = rng[2] /\ ContainsS(h[7], n.text) /\ (n.desc = "" \/ ContainsS(h[7], n.desc))) }
  IN
  (IF missing # {} THEN LET m == CHOOSE m \in missing : TRUE IN
     {[l |-> l, prop |-> "C13", what |-> IF \E x \in obs : x[1] = m[1] /\ x[3] = m[3] /\ x[4] = m[4] THEN "token of a name / label carries the wrong modifiers (" \o m[1] \o ")"
                                         ELSE "no token for a schema-known name (" \o m[1] \o ")", case |-> e.case, layout |-> e.layout]} ELSE {})
  \cup (IF extra # {} /\ missing = {} THEN {[l |-> l, prop |-> "C13", what |-> "token for a name the schema does not know (" \o (CHOOSE x \in extra : TRUE)[1] \o ")", case |-> e.case, layout |-> e.layout]} ELSE {})
  \cup (IF hbad # {} THEN LET h == hv[CHOOSE i \in hbad : TRUE] IN
          {[l |-> l, prop |-> "C12", what |-> "hover on a schema-known " \o (IF h[2] = "label" THEN "label" ELSE "attribute name / block type")
                                              \o " does not name it with the effective schema's description and its own range", case |-> e.case, layout |-> e.layout]} ELSE {})

V(prop, what) == [l |-> l, prop |-> IF prop = "C15" /\ Ev.feat THEN "C16" ELSE prop,
                  what |-> IF prop = "C15" /\ Ev.feat THEN "validation does not see the selected body schema: " \o what ELSE what,
                  case |-> Ev.case, layout |-> Ev.layout]

BodyViol(e) ==
  LET S == e.schema  D == e.doc  C == e.cur  O == e.obs
      op == Opaque(S, D, <<>>)
      ED == {d \in Diags(S, D, <<>>, FALSE) : ~UnderOpaque(op, d[2])}
      OD == {d \in ToSet(O.diags) : ~UnderOpaque(op, d[2])}
      missing == ED \ OD
      extra == OD \ ED
      at == At(S, D, C.path, FALSE)
  IN
  (IF O.vstatus # "ok" THEN {V("C15", "ValidateFile did not return diagnostics: " \o O.vstatus)} ELSE
     (IF missing # {} THEN {V("C15", "missing diagnostic " \o (CHOOSE d \in missing : TRUE)[1])} ELSE {})
     \cup (IF extra # {} THEN {V("C15", "surplus diagnostic " \o (CHOOSE d \in extra : TRUE)[1])} ELSE {})
     \cup (IF Cardinality(ToSet(O.diags)) # Len(O.diags) THEN {V("C15", "a diagnostic is reported twice")} ELSE {})
     \cup (IF O.vall # Len(O.diags) THEN {V("C15", "Validate and ValidateFile disagree")} ELSE {}))
  \cup
  (IF C.kind = "gap" /\ ~at.opaque THEN
     IF O.cstatus # "ok" THEN {V("C07", "body completion failed: " \o O.cstatus)}
     ELSE LET exp == CandP(at.schema, at.body, C.prefix)
              open == CandOpen(at.schema, at.body, C.prefix)
              notOffered == (exp \ open) \ ToSet(O.cands)
              notAllowed == ToSet(O.cands) \ (exp \cup open) IN
          (IF notOffered # {} THEN {V("C07", "candidate not offered: " \o (CHOOSE c \in notOffered : TRUE))} ELSE {})
          \cup (IF notAllowed # {} THEN {V("C07", "candidate offered that the effective schema does not allow: " \o (CHOOSE c \in notAllowed : TRUE))} ELSE {})
          \cup (IF ~StrictlySorted(O.cands) THEN {V("C07", "candidates not sorted or duplicated")} ELSE {})
          \cup (IF \E i \in DOMAIN O.accept : O.accept[i][2] # 0
                THEN {V("C07", "accepting a candidate makes validation report an unexpected or surplus item: "
                              \o O.accept[CHOOSE i \in DOMAIN O.accept : O.accept[i][2] # 0][1])} ELSE {})
   \* the cursor is inside the type of an existing block: the typed text is the part of the type in front of the cursor
   \* (whether the type of that very block is offered although the block is there is left open)
   ELSE IF C.kind = "type" THEN
     LET pa == At(S, D, SubSeq(C.path, 1, Len(C.path) - 1), FALSE) IN
     LET ty == pa.body[C.path[Len(C.path)]].type IN
     \* (on the type of a block the schema does not know the decoder answers "unknown block type": nothing is asserted there)
     IF pa.opaque \/ pa.schema = Nil \/ ~Has(pa.schema.blocks, ty) THEN {}
     ELSE IF O.cstatus # "ok" THEN {V("C07", "body completion failed: " \o O.cstatus)}
     ELSE LET exp == CandP(pa.schema, pa.body, C.prefix)
              open == CandOpen(pa.schema, pa.body, C.prefix) \cup {ty}
              notOffered == (exp \ open) \ ToSet(O.cands)
              notAllowed == ToSet(O.cands) \ (exp \cup open) IN
          (IF notOffered # {} THEN {V("C07", "candidate not offered (cursor inside a block type): " \o (CHOOSE c \in notOffered : TRUE))} ELSE {})
          \cup (IF notAllowed # {} THEN {V("C07", "candidate offered that the effective schema does not allow: " \o (CHOOSE c \in notAllowed : TRUE))} ELSE {})
          \cup (IF ~StrictlySorted(O.cands) THEN {V("C07", "candidates not sorted or duplicated")} ELSE {})
   ELSE IF C.kind = "label" /\ at.block # Nil /\ C.index + 1 <= Len(at.block.labels) /\ at.block.labels[C.index + 1].comp THEN
     IF O.cstatus # "ok" THEN {V("C07", "label completion failed: " \o O.cstatus)}
     ELSE LET exp == LabelCandP(at.block, C.index, C.prefix) IN
          (IF ToSet(O.cands) # exp THEN {V("C07", "label candidates differ from the dependent-body label values")} ELSE {})
          \cup (IF ~StrictlySorted(O.cands) THEN {V("C07", "label candidates not sorted or duplicated")} ELSE {})
   ELSE {})

\* Key events arrive in two passes: "A" ordered so that listings of one set are adjacent, "B" so that equal keys
\* are adjacent; comparing neighbours then decides "same set <=> same key" over the whole universe.
KeyViol(e) ==
  LET ks == << ToSet(e.ls), ToSet(e.as) >> IN
  IF keymemo = <<>> THEN {} ELSE
  (IF keymemo[1] = ks /\ keymemo[2] # e.key
   THEN {[l |-> l, prop |-> "C16", what |-> "the same set of dependency keys yields different schema keys depending on the listing order", case |-> e.case, layout |-> 0]} ELSE {})
  \cup (IF keymemo[1] # ks /\ keymemo[2] = e.key
        THEN {[l |-> l, prop |-> "C16", what |-> "two different sets of dependency keys share one schema key", case |-> e.case, layout |-> 0]} ELSE {})

TInit == l = 1 /\ bad = {} /\ keymemo = <<>>

Step ==
  /\ l <= Len(Trace)
  /\ l' = l + 1
  /\ bad' = bad \cup (IF Ev.ev = "Body" THEN BodyViol(Ev) \cup (IF Ev.feat THEN FeatViol(Ev) \cup NameViol(Ev) ELSE {})
                      ELSE IF Ev.ev = "Key" THEN KeyViol(Ev) ELSE {})
  /\ keymemo' = IF Ev.ev = "Key" THEN << << ToSet(Ev.ls), ToSet(Ev.as) >>, Ev.key >> ELSE keymemo

Finish ==
  /\ l = Len(Trace) + 1
  /\ JsonSerialize(IOEnv.VOUT, [consumed |-> l - 1, bad |-> bad])
  /\ l' = l + 1
  /\ UNCHANGED <<bad, keymemo>>

TNext == Step \/ Finish
TSpec == TInit /\ [][TNext]_tvars
TraceAccepted == TLCGet("stats").diameter = Len(Trace) + 2
=============================================================================
