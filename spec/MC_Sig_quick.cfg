SPECIFICATION Spec
CONSTANTS
  MaxRootArgs = 2
INVARIANTS ImplAllowed AllowedValid
CONSTRAINT Emit
CHECK_DEADLOCK FALSE
