SPECIFICATION Spec
CONSTANTS D = 1
INVARIANTS DistinctPaths NoSelfWhenOff LiteralQuiet
CONSTRAINT Emit
CHECK_DEADLOCK FALSE
