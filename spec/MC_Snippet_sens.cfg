SPECIFICATION Spec
CONSTANTS
  Mode = "body"
  Quick = TRUE
INVARIANTS Old_OK OldBlock_OK
CHECK_DEADLOCK FALSE
