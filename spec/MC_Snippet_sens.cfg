SPECIFICATION Spec
CONSTANTS
  Mode = "body"
  Quick = TRUE
INVARIANTS Old_OK
CHECK_DEADLOCK FALSE
