#!/bin/bash
set -e
cd /verif/harness && GOFLAGS=-mod=mod GOPROXY=off GOSUMDB=off GOTOOLCHAIN=local go build -tags verif -o /verif/.work/bin/hx .
mkdir -p /verif/.work/vc && cd /verif/.work/vc && cp ../../spec/*.tla ../../spec/*.cfg . && export JAVA_TOOL_OPTIONS=-Xss512m
timeout 600 tlc -noGenerateSpecTE -workers 4 -metadir $PWD/meta -config MC_ValComp.cfg MC_ValComp.tla > out.txt 2>&1 || true
grep -E "rror|violated|line [0-9]+, col" out.txt | head -5 || true
python3 - <<'PY'
import json
seen=set();out=open('/verif/.work/vc/cases.ndjson','w')
for l in open('/verif/.work/vc/out.txt'):
    if l.startswith('"{'):
        s=json.loads(l); k=json.dumps(json.loads(s),sort_keys=True)
        if k not in seen:
            seen.add(k); out.write(s+"\n")
print(len(seen),"cases")
PY
../bin/hx valcomp -cases cases.ndjson -out vc -shards 2 >/dev/null
for i in 0 1; do TRACE=$PWD/vc.00$i.ndjson VOUT=$PWD/v$i.json timeout 600 tlc -noGenerateSpecTE -workers 1 -metadir $PWD/mt$i -config TraceValComp.cfg TraceValComp.tla 2>&1 | grep -E "rror|line [0-9]+, col" | head -5 || true; done
python3 - <<'PY'
import json,collections
c=collections.Counter()
for i in (0,1):
    v=json.load(open('/verif/.work/vc/v%d.json'%i)); print(v['consumed'], len(v['bad']))
    evs=[json.loads(l) for l in open('/verif/.work/vc/vc.00%d.ndjson'%i)]
    for b in v['bad']:
        c[b['what']]+=1
        if c[b['what']]<=2:
            e=evs[b['l']-1]; print(b['what'],'|',e['cons']['k'],e['cons'].get('t'),repr(e['typed']),e['place'],[(x[0],x[1][:3],x[2][:5]) for x in e['cands']][:12])
for k,v in c.most_common(): print(v,k)
PY
