#!/usr/bin/env python3
"""Confirm the deliverables of one mutation round: /tmp/mutout-<pid>-<round>/ -> seeded/<pid>-m<next>/ (via confirm_seed.py), in parallel.
usage: confirm_round.py r4 [C01 C02 ...]"""
import sys, os, glob, subprocess, json
from concurrent.futures import ThreadPoolExecutor
ROOT = os.path.dirname(os.path.dirname(os.path.abspath(__file__)))
rnd = sys.argv[1]
pids = sys.argv[2:] or sorted(os.path.basename(d).split("-")[1] for d in glob.glob("/tmp/mutout-C*-" + rnd))
def nxt(pid):
    n = 1
    while os.path.exists(os.path.join(ROOT, "seeded", "%s-m%d" % (pid, n))):
        n += 1
    return n
jobs = []
for pid in pids:
    src = "/tmp/mutout-%s-%s" % (pid, rnd)
    if not os.path.exists(os.path.join(src, "patch.diff")):
        print(pid, "no deliverables")
        continue
    subprocess.run("git -C /repo worktree remove --force /tmp/mut-%s-%s" % (pid, rnd), shell=True, capture_output=True)
    jobs.append((pid, src, "%s-m%d" % (pid, nxt(pid))))
def one(j):
    pid, src, name = j
    p = subprocess.run(["python3", os.path.join(ROOT, "bin", "confirm_seed.py"), src, name, pid], capture_output=True, text=True)
    return name, (p.stdout.strip().splitlines() or [p.stderr.strip()[-300:]])[-1]
with ThreadPoolExecutor(max_workers=6) as ex:
    for name, line in ex.map(one, jobs):
        print(name, line)
