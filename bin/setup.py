#!/usr/bin/env python3
"""setup_cmd: offline warm build of the harness, syntax/semantic check of every TLA+ module."""
import os, subprocess, sys, glob, shutil, tempfile
ROOT = os.path.dirname(os.path.dirname(os.path.abspath(__file__)))
env = dict(os.environ, GOFLAGS="-mod=mod", GOPROXY="off", GOSUMDB="off", GOTOOLCHAIN="local")
os.makedirs(os.path.join(ROOT, ".work", "bin"), exist_ok=True)
for race in ([], ["-race"]):
    p = subprocess.run(["go", "build", "-tags", "verif"] + race + ["-o", os.path.join(ROOT, ".work", "bin", "hx" + ("-race" if race else "")), "."],
                       cwd=os.path.join(ROOT, "harness"), env=env)
    if p.returncode != 0:
        sys.exit("setup: harness build failed")
d = tempfile.mkdtemp(dir=os.path.join(ROOT, ".work"))
try:
    for f in glob.glob(os.path.join(ROOT, "spec", "*.tla")):
        shutil.copy(f, d)
    bad = 0
    for f in sorted(glob.glob(os.path.join(d, "*.tla"))):
        p = subprocess.run(["tla-sany", os.path.basename(f)], cwd=d, capture_output=True, text=True)
        out = p.stdout + p.stderr
        if p.returncode != 0 or "Semantic errors" in out or "Parse Error" in out or "Fatal errors" in out:
            print(out[-1500:])
            print("setup: SANY rejects", os.path.basename(f))
            bad += 1
    if bad:
        sys.exit(1)
finally:
    shutil.rmtree(d, ignore_errors=True)
print("setup ok")
