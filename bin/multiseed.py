#!/usr/bin/env python3
"""Run the quick (or thorough) tier of every check with several seeds on the tree in /repo; print one line per run."""
import os, subprocess, sys, json, time
ROOT = os.path.dirname(os.path.dirname(os.path.abspath(__file__)))
tier = "quick"
args = sys.argv[1:]
if args and args[0] == "--thorough":
    tier, args = "thorough", args[1:]
seeds = [int(x) for x in (args[0].split(",") if args else ["2", "3", "4"])]
props = args[1].split(",") if len(args) > 1 else ["C%02d" % i for i in range(1, 21)]
for s in seeds:
    for p in props:
        t = time.time()
        r = subprocess.run(["python3", os.path.join(ROOT, "bin", "check.py"), p, "--tier", tier], capture_output=True, text=True,
                           env=dict(os.environ, VERIF_SEED=str(s), VERIF_NO_EVIDENCE="1"))
        v = [l for l in r.stdout.splitlines() if l.startswith("VIOLATION")]
        print("seed=%d %s %s exit=%d %ds %s" % (s, p, tier, r.returncode, time.time() - t, v[:2]), flush=True)
        if r.returncode not in (0, 1):
            print(r.stdout[-1500:], r.stderr[-1500:], flush=True)
