#!/usr/bin/env python3
"""python3 bin/check.py <PROPERTY> [--tier quick|thorough] [--replay FILE]

exit 0  property held on everything explored (KNOWN-FINDING lines allowed)
exit 1  VIOLATION property=<id> replay=<path>
exit 2  infrastructure failure (build, TLC crash, time-out, empty run) - never a verdict
"""
import sys, os, argparse, subprocess
sys.path.insert(0, os.path.dirname(os.path.abspath(__file__)))
from vlib import Ctx, Infra
import pipelines


def main():
    ap = argparse.ArgumentParser()
    ap.add_argument("prop")
    ap.add_argument("--tier", default=os.environ.get("VERIF_TIER", "quick"))
    ap.add_argument("--replay")
    a = ap.parse_args()
    seed = int(os.environ.get("VERIF_SEED", "1") or "1")
    tier = "thorough" if a.tier.startswith("t") else "quick"
    ctx = Ctx(a.prop, tier, seed)
    try:
        fn = pipelines.PIPELINES.get(a.prop)
        if not fn:
            raise Infra("no pipeline for " + a.prop)
        ctx.build()
        if a.replay:
            pipelines.replay(ctx, a.replay)
        else:
            fn(ctx)
    except Infra as e:
        print("INFRA-ERROR %s: %s" % (a.prop, e), file=sys.stderr)
        sys.exit(2)
    except subprocess.TimeoutExpired as e:
        print("INFRA-ERROR %s: timeout %s" % (a.prop, e), file=sys.stderr)
        sys.exit(2)


if __name__ == "__main__":
    main()
