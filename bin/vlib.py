#!/usr/bin/env python3
"""Orchestrator: python3 bin/check.py <PROPERTY> [--tier quick|thorough] [--replay FILE]

exit 0  property held on everything explored (KNOWN-FINDING lines allowed)
exit 1  VIOLATION property=<id> replay=<path>
exit 2  infrastructure failure (build, TLC crash, time-out, empty run) - never a verdict
"""
import sys, os, json, subprocess, shutil, time, re, glob, hashlib, atexit, argparse
from concurrent.futures import ThreadPoolExecutor

ROOT = os.path.dirname(os.path.dirname(os.path.abspath(__file__)))
SPEC = os.path.join(ROOT, "spec")
HARNESS = os.path.join(ROOT, "harness")

GOENV = dict(os.environ, GOFLAGS="-mod=mod", GOPROXY="off", GOSUMDB="off", GOTOOLCHAIN="local")
GOENV.pop("GOPATH", None) if False else None
JAVA_OPTS = "-Xss512m"


class Infra(Exception):
    pass


class Ctx:
    def __init__(self, prop, tier, seed):
        self.prop, self.tier, self.seed = prop, tier, seed
        self.work = os.path.join(ROOT, ".work", "%s-%d" % (prop, os.getpid()))
        os.makedirs(self.work, exist_ok=True)
        atexit.register(lambda: shutil.rmtree(self.work, ignore_errors=True))
        self.hx = os.path.join(self.work, "hx")
        self.t0 = time.time()
        self.tlc_states = 0
        self.tlc_trans = 0
        self.tlc_runs = []
        self.quick = tier == "quick"

    # ---------------------------------------------------------------- build
    def build(self, race=False):
        out = self.hx + ("-race" if race else "")
        mod = []
        alt = os.environ.get("VERIF_REPO")  # seed testing only: build against a scratch worktree instead of /repo
        if alt:
            gm = open(os.path.join(HARNESS, "go.mod")).read().replace("=> /repo", "=> " + alt)
            open(os.path.join(self.work, "go.mod"), "w").write(gm)
            shutil.copy(os.path.join(HARNESS, "go.sum"), os.path.join(self.work, "go.sum"))
            mod = ["-modfile=" + os.path.join(self.work, "go.mod")]
        cmd = ["go", "build"] + mod + ["-tags", "verif"] + (["-race"] if race else []) + ["-o", out, "."]
        p = subprocess.run(cmd, cwd=HARNESS, env=GOENV, capture_output=True, text=True)
        if p.returncode != 0:
            raise Infra("harness build failed:\n" + p.stdout + p.stderr)
        return out

    def run_hx(self, args, timeout=3600, binary=None, env=None, ok_codes=(0,)):
        e = dict(GOENV)
        if env:
            e.update(env)
        p = subprocess.run([binary or self.hx] + args, cwd=self.work, env=e, capture_output=True, text=True, timeout=timeout)
        if p.returncode == 3:
            return p  # hang record
        if p.returncode not in ok_codes:
            raise Infra("hx %s failed (%d):\n%s%s" % (" ".join(args[:3]), p.returncode, p.stdout[-2000:], p.stderr[-4000:]))
        return p

    # ---------------------------------------------------------------- TLC
    def spec_dir(self, name):
        d = os.path.join(self.work, "spec-" + name)
        if not os.path.isdir(d):
            os.makedirs(d)
            for f in glob.glob(os.path.join(SPEC, "*.tla")) + glob.glob(os.path.join(SPEC, "*.cfg")):
                shutil.copy(f, d)
        return d

    def tlc(self, module, cfg, name, env=None, workers=1, timeout=1800, extra=None, expect_violation=False):
        d = self.spec_dir(name)
        e = dict(os.environ, JAVA_TOOL_OPTIONS=JAVA_OPTS)
        if env:
            e.update(env)
        meta = os.path.join(d, "meta")
        cmd = ["timeout", str(timeout), "tlc", "-noGenerateSpecTE", "-workers", str(workers), "-metadir", meta, "-config", cfg] + (extra or []) + [module]
        t = time.time()
        p = subprocess.run(cmd, cwd=d, env=e, capture_output=True, text=True)
        out = p.stdout + p.stderr
        m = re.search(r"(\d+) states generated, (\d+) distinct states found", out)
        gen, dist = (int(m.group(1)), int(m.group(2))) if m else (0, 0)
        self.tlc_states += dist
        self.tlc_trans += gen
        self.tlc_runs.append({"module": module, "cfg": cfg, "generated": gen, "distinct": dist, "wall_s": round(time.time() - t, 1), "rc": p.returncode})
        shutil.rmtree(meta, ignore_errors=True)
        if p.returncode == 124:
            raise Infra("TLC timed out on %s/%s" % (module, cfg))
        ok = "Model checking completed. No error has been found." in out or "Finished in" in out and "Error:" not in out
        if not ok and not expect_violation:
            raise Infra("TLC failed on %s/%s:\n%s" % (module, cfg, out[-3000:]))
        return out, ok

    def validate_traces(self, module, cfg, files, par=8, timeout=1800):
        """Run the trace spec over every shard; returns list of violation records (with 'file')."""
        def one(i_f):
            i, f = i_f
            vout = f + ".viol.json"
            out, ok = self.tlc(module, cfg, "tv%d" % i, env={"TRACE": f, "VOUT": vout}, timeout=timeout)
            if not os.path.exists(vout):
                raise Infra("trace spec wrote no verdict for %s:\n%s" % (f, out[-2000:]))
            v = json.load(open(vout))
            n = sum(1 for _ in open(f))
            if v["consumed"] != n:
                raise Infra("trace %s: consumed %d of %d lines" % (f, v["consumed"], n))
            for b in v["bad"]:
                b["file"] = f
            return v["bad"], n
        bad, events = [], 0
        # every TLC may grow to a quarter of the RAM: fewer at a time when the traces are large
        biggest = max([os.path.getsize(f) for f in files] or [0])
        if biggest > 400 << 20:
            par = min(par, 2)
        elif biggest > 100 << 20:
            par = min(par, 4)
        with ThreadPoolExecutor(max_workers=par) as ex:
            for b, n in ex.map(one, list(enumerate(files))):
                bad += b
                events += n
        return bad, events


# -------------------------------------------------------------------- known findings
def load_known():
    p = os.path.join(ROOT, "known_findings.json")
    if not os.path.exists(p):
        return []
    return json.load(open(p)).get("findings", [])


def match_known(prop, what, known):
    for k in known:
        if k.get("status") == "fixed":
            continue  # fixed entries suppress nothing
        if k["property"] == prop and re.search(k["match"], what):
            return k
    return None


def write_replay(prop, rec):
    d = os.path.join(ROOT, "replays", prop)
    os.makedirs(d, exist_ok=True)
    s = json.dumps(rec, sort_keys=True, indent=1)
    p = os.path.join(d, hashlib.sha256(s.encode()).hexdigest()[:16] + ".json")
    open(p, "w").write(s)
    return p


def finish(ctx, violations, coverage, level="model_checking", assumptions=None):
    """violations: list of dicts {what, replay(dict)}; prints verdict lines, writes evidence, exits."""
    known = load_known()
    seen_known, new = {}, []
    for v in violations:
        k = match_known(ctx.prop, v["what"], known)
        if k:
            seen_known.setdefault(k["id"], (k, v))
        else:
            new.append(v)
    for kid, (k, v) in sorted(seen_known.items()):
        print("KNOWN-FINDING: property=%s %s [%s]" % (ctx.prop, k["title"], kid))
    uniq = {}
    for v in new:
        uniq.setdefault(v["what"], v)
    for what, v in sorted(uniq.items())[:20]:
        path = write_replay(ctx.prop, dict(v.get("replay", {}), property=ctx.prop, what=what, seed=ctx.seed))
        print("VIOLATION property=%s replay=%s  # %s" % (ctx.prop, path, what))
    cov = dict(coverage)
    cov.setdefault("states", ctx.tlc_states)
    cov.setdefault("transitions", ctx.tlc_trans)
    cov["tlc_runs"] = ctx.tlc_runs[:40]
    cov["known_findings_seen"] = sorted(seen_known)
    ev = {
        "property_id": ctx.prop, "tier": ctx.tier, "seed": ctx.seed, "level": level,
        "coverage": cov, "assumptions": assumptions or [], "wall_s": round(time.time() - ctx.t0, 1),
        "violations": len(uniq),
    }
    if not os.environ.get("VERIF_NO_EVIDENCE"):
        os.makedirs(os.path.join(ROOT, "evidence"), exist_ok=True)
        json.dump(ev, open(os.path.join(ROOT, "evidence", ctx.prop + ".json"), "w"), indent=1, sort_keys=True)
    print("%s %s: %d violation(s), %d known finding(s), %.0fs" % (ctx.prop, ctx.tier, len(uniq), len(seen_known), time.time() - ctx.t0))
    sys.exit(1 if uniq else 0)


