#!/usr/bin/env python3
"""Confirm a sub-agent's seeded change in a scratch worktree and store it under /verif/seeded/<name>/.
usage: confirm_seed.py <srcdir with patch.diff demo_test.go notes.md> <name> <property>"""
import sys, os, subprocess, shutil, json, re
src, name, prop = sys.argv[1:4]
env = dict(os.environ, GOFLAGS="-mod=mod", GOPROXY="off", GOSUMDB="off", GOTOOLCHAIN="local")
wt = "/tmp/seedwt-" + name
def sh(cmd, cwd=None, check=False):
    p = subprocess.run(cmd, shell=True, cwd=cwd, env=env, capture_output=True, text=True)
    if check and p.returncode: sys.exit("FAILED: %s\n%s%s" % (cmd, p.stdout[-2000:], p.stderr[-2000:]))
    return p
sh("git -C /repo worktree remove --force %s" % wt)
sh("git -C /repo worktree add -q --detach %s HEAD" % wt, check=True)
res = {"property": prop, "name": name}
try:
    demo = open(os.path.join(src, "demo_test.go")).read()
    m = re.search(r"place in:\s*(\S+)", demo)
    pkg = m.group(1).strip("/") if m else "decoder"
    p = sh("git apply --check %s/patch.diff" % src, cwd=wt)
    if p.returncode: sys.exit("patch does not apply to HEAD: " + p.stderr)
    # baseline: demo passes without the change
    shutil.copy(os.path.join(src, "demo_test.go"), os.path.join(wt, pkg, "zz_demo_test.go"))
    base = sh("go test -vet=off -count=1 ./%s/" % pkg, cwd=wt)
    res["demo_passes_without"] = base.returncode == 0
    os.remove(os.path.join(wt, pkg, "zz_demo_test.go"))
    sh("git apply %s/patch.diff" % src, cwd=wt, check=True)
    b = sh("go build ./... && go test -vet=off -count=1 ./...", cwd=wt)
    res["suite_passes_with"] = b.returncode == 0
    shutil.copy(os.path.join(src, "demo_test.go"), os.path.join(wt, pkg, "zz_demo_test.go"))
    d = sh("go test -vet=off -count=1 ./%s/" % pkg, cwd=wt)
    res["demo_fails_with"] = d.returncode != 0
    res["demo_pkg"] = pkg
    ok = res["demo_passes_without"] and res["suite_passes_with"] and res["demo_fails_with"]
    res["confirmed"] = ok
    print(json.dumps(res))
    if ok:
        dst = os.path.join("/verif/seeded", name)
        os.makedirs(dst, exist_ok=True)
        for f in ("patch.diff", "demo_test.go", "notes.md"):
            if os.path.exists(os.path.join(src, f)): shutil.copy(os.path.join(src, f), dst)
        notes = open(os.path.join(src, "notes.md")).read() if os.path.exists(os.path.join(src, "notes.md")) else ""
        meta = {"property": prop, "breaks": prop, "needs_to_manifest": notes[:1500],
                "confirmed_by": "bin/confirm_seed.py in a scratch worktree of /repo HEAD %s: suite passes with the change, demo fails with it and passes without" % sh("git -C /repo rev-parse --short HEAD").stdout.strip(),
                "ran": ["git apply patch.diff", "go build ./... && go test -vet=off -count=1 ./...", "go test ./%s/ (demo)" % pkg], "detected_by": []}
        json.dump(meta, open(os.path.join(dst, "meta.json"), "w"), indent=1)
finally:
    sh("git -C /repo worktree remove --force %s" % wt)
