#!/usr/bin/env python3
"""Print the brief for a mutation sub-agent: only the text of one property and a scratch worktree. usage: agent_prompt.py C07 r3 [focus]"""
import json, sys
pid, rnd = sys.argv[1], sys.argv[2]
focus = sys.argv[3] if len(sys.argv) > 3 else ""
prop = next(json.loads(l) for l in open("/verif/properties.jsonl") if json.loads(l)["id"] == pid)
wt, out = "/tmp/mut-%s-%s" % (pid, rnd), "/tmp/mutout-%s-%s" % (pid, rnd)
print(f"""You are helping to evaluate how well a semantic property of the Go library hashicorp/hcl-lang is protected against regressions.

A private scratch git worktree of the library is at {wt} (its own copy: edit it freely; do NOT touch /repo and do NOT read or use anything under /verif). The sandbox has no network; in every shell first run:
  export GOFLAGS=-mod=mod GOPROXY=off GOSUMDB=off GOTOOLCHAIN=local
The test suite is `cd {wt} && go build ./... && go test -vet=off -count=1 ./...` (about a minute).

The property (it is stated to hold on the code as it is now):

{json.dumps({k: prop[k] for k in ("id", "title", "statement", "quantifier", "why_tests_cant", "anchors")}, indent=1)}

Task: make ONE realistic change to the library in {wt} - the kind of edit a maintainer could plausibly make (a refactoring slip, an optimisation, an off-by-one, a forgotten case, a cache, a changed order, a wrong guard ...) - that BREAKS this property while the library still compiles and the whole existing test suite still passes. {("Anchor it in or near: " + focus + ". ") if focus else ""}The change must need something specific to manifest (particular schema shape, particular file content, cursor position, sequence of calls or interleaving): not a change that fails on the simplest input, and not a change of comments, tests, or public signatures. Keep it small (a few lines, one or two files). Do not change test files.

Deliver three files in {out}/ (create the directory):
 1. patch.diff  - `git -C {wt} diff` of the change (must apply with `git apply` to the unchanged worktree HEAD).
 2. demo_test.go - a self-contained Go test file whose FIRST line is the comment `// place in: <package directory relative to the repo root, e.g. decoder>`, in that package (or its _test package), with a test name starting with TestDemo, that PASSES on the unchanged code and FAILS with your change (it demonstrates the property violation through the public behaviour: a wrong result, a panic, a data race is not acceptable unless it fails deterministically). Verify both yourself by reversing and re-applying your patch (`git -C {wt} diff > p.diff; git -C {wt} apply -R p.diff; ...; git -C {wt} apply p.diff`). Do NOT use `git stash` (the stash is shared by all worktrees of the repository and other people work in sibling worktrees).
 3. notes.md - the change, why the existing tests do not notice, and exactly what is needed for the breakage (schema, file content, position, calls).

Before you finish: leave the worktree WITH the change applied but WITHOUT demo_test.go in it, confirm the suite passes in that state, and report in your final message: the files changed, one paragraph on what breaks, and what input is needed.""")
