"""Per-property pipelines. Each builds cases with TLC and/or drives the real code through the harness,
lets TLC decide (model checking + trace validation) and hands the violations to vlib.finish."""
import os, json, glob, re, collections
from vlib import Infra, finish, ROOT

PIPELINES = {}


def pipeline(*ids):
    def deco(fn):
        for i in ids:
            PIPELINES[i] = fn
        return fn
    return deco


# ------------------------------------------------------------------------------------------------
# Session family: C01 C02 C04 C06 C12 C13 C14 (shape parts) - direction B, TraceSession.tla
# ------------------------------------------------------------------------------------------------
SESSION_RUNS = {
    # name: (quick args, thorough args)
    "kinds-prefix": (["-worlds", "kinds", "-mode", "prefix"],
                     ["-worlds", "kinds", "-mode", "prefix"]),
    "kinds-edits": (["-worlds", "kinds", "-mode", "edits", "-sample", "0.08", "-radius", "16"],
                    ["-worlds", "kinds", "-mode", "edits", "-sample", "1.0", "-radius", "40"]),
    "hostile": (["-worlds", "hostile", "-mode", "both", "-sample", "0.05", "-radius", "16"],
                ["-worlds", "hostile", "-mode", "both", "-sample", "1.0", "-radius", "40"]),
    "tf-prefix": (["-worlds", "tf,tfbad", "-mode", "prefix", "-stride", "6", "-tail", "48"],
                  ["-worlds", "tf,tfbad", "-mode", "prefix", "-stride", "1", "-tail", "400"]),
    "mods": (["-worlds", "mods,modsbroken", "-mode", "both", "-sample", "0.05", "-radius", "16", "-stride", "3"],
             ["-worlds", "mods,modsbroken", "-mode", "both", "-sample", "1.0", "-radius", "40"]),
    "tf-edits": (["-worlds", "tf,tfbad", "-mode", "edits", "-sample", "0.004", "-radius", "12"],
                 ["-worlds", "tf,tfbad", "-mode", "edits", "-sample", "0.15", "-radius", "32"]),
}

SESSION_PLAN = {
    "C01": ["kinds-prefix", "kinds-edits", "hostile", "mods", "tf-prefix", "tf-edits"],
    "C02": ["kinds-prefix", "kinds-edits", "hostile", "mods", "tf-prefix", "tf-edits"],
    "C06": ["kinds-prefix", "kinds-edits", "tf-prefix"],
    "C12": ["kinds-prefix", "kinds-edits", "tf-prefix"],
    "C13": ["kinds-prefix", "kinds-edits", "hostile", "tf-prefix", "tf-edits"],
    "C14": ["kinds-prefix", "kinds-edits", "hostile", "tf-prefix", "tf-edits"],
    "C04": ["kinds-prefix", "hostile", "tf-prefix"],
}


def range_class(r):
    f, sb, sl, sc, eb, el, ec = r[:7]
    if eb == 0 and el == 0 and ec == 0 and sb > 0:
        return "zero end position"
    if sb == 0 and sl == 0 and sc == 0:
        return "zero start position"
    if eb < sb:
        return "end before start"
    return "offset/line/column mismatch or outside the file"


def state_of(lines, l):
    """Find the Load / Init event that governs trace line l (1-based)."""
    load, init = None, None
    for i in range(l - 1, -1, -1):
        e = lines[i]
        if e["ev"] == "Load" and load is None and e.get("note") != "init":
            load = e
        if e["ev"] == "Init":
            init = e
            break
    return load, init


def session_family(ctx, extra_args=None, runs=None):
    names = runs or SESSION_PLAN[ctx.prop]
    files, nstates = [], 0
    for nm in names:
        q, t = SESSION_RUNS[nm]
        args = list(q if ctx.quick else t) + ["-seed", str(ctx.seed), "-out", os.path.join(ctx.work, nm)] + (extra_args or [])
        p = ctx.run_hx(["session"] + args)
        if p.returncode == 3:
            hang = open(os.path.join(ctx.work, nm + ".hang")).read()
            return [{"what": "query does not terminate: " + hang.strip(), "replay": {"pipeline": "session", "hang": hang}}], {}, []
        info = json.loads(p.stdout.strip().splitlines()[-1])
        nstates += info["states"]
        files += sorted(glob.glob(os.path.join(ctx.work, nm + ".*.ndjson")))
    if not files or nstates == 0:
        raise Infra("session driver produced no states")
    bad, events = ctx.validate_traces("TraceSession.tla", "TraceSession.cfg", files)
    cache = {}
    viols = []
    queries = collections.Counter()
    hist = collections.Counter()
    nranges = 0
    samples = []
    for f in files:
        evs = [json.loads(x) for x in open(f)]
        cache[f] = evs
        for e in evs:
            if e["ev"] == "Q":
                queries[e["k"]] += e["n"]
                nranges += len(e["rs"])
                for s, n in e["hist"].items():
                    hist[e["k"] + ":" + s] += n
        if len(samples) < 3:
            for e in evs:
                if e["ev"] == "Q" and e["k"] in ("completion", "hover") and e["n"] > 3:
                    load, init = state_of(evs, evs.index(e))
                    samples.append({"world": init and init.get("world"), "state": load and load.get("note"), "kind": e["k"], "queries": e["n"],
                                    "hist": e["hist"], "ranges": len(e["rs"]), "first_ranges": e["rs"][:3]})
                    break
    for b in bad:
        if b["prop"] == "MODEL":
            raise Infra("text model disagrees with the harness: %s line %d" % (b["file"], b["l"]))
        if b["prop"] != ctx.prop:
            continue
        evs = cache[b["file"]]
        e = evs[b["l"] - 1]
        load, init = state_of(evs, b["l"] - 1)
        base = {"pipeline": "session", "world": init and init.get("world"), "file": load and load.get("f"),
                "state": load and load.get("note"), "kind": e.get("k"), "n": b["n"]}
        if "ill-formed range" in b["what"]:
            for i in b.get("idx", []):
                r = e["rs"][i - 1]
                viols.append({"what": "%s [%s] (%s)" % (b["what"], r[7], range_class(r)), "replay": dict(base, detail=r)})
        else:
            viols.append({"what": b["what"], "replay": dict(base, first=b.get("first"))})
    cov = {
        "evaluations": sum(queries.values()),
        "distinct_nontrivial": nstates,
        "rule": "one case = one buffer state (token prefix or single-token edit of a seed document) on which every entry point was run; "
                "all are non-trivial (the parser returned a file); evaluations = individual library calls",
        "traces_validated_against_impl": len(files),
        "trace_events": events,
        "queries_by_kind": dict(queries),
        "outcomes": dict(hist),
        "ranges_checked": nranges,
        "samples": samples,
        "exhaustive": False,
    }
    return viols, cov, files


@pipeline("C01", "C02")
def p_session(ctx):
    if ctx.prop == "C02":
        # the text model itself: offsets <-> line/column one to one, on all small buffers
        ctx.tlc("MC_Text.tla", "MC_Text_quick.cfg" if ctx.quick else "MC_Text.cfg", "mctext", workers=8, timeout=1800)
    viols, cov, _ = session_family(ctx)
    finish(ctx, viols, cov, assumptions=[
        "buffers are valid UTF-8 without CR, cut at lexer-token boundaries (DESIGN 5/C01)",
        "targets/origins in the context are collected from the current buffer",
        "grapheme segmentation by textseg is trusted; line/column counting is the specification's (Text.tla)"])


def replay(ctx, path):
    rec = json.load(open(path))
    if rec.get("pipeline") == "session":
        if rec.get("hang"):
            print("replay of a hang: run the recorded call by hand: " + rec["hang"])
            return
        args = ["session", "-worlds", rec["world"], "-mode", "both", "-only", rec["state"], "-out", os.path.join(ctx.work, "rp"), "-fpevery", "1"]
        ctx.run_hx(args)
        files = sorted(glob.glob(os.path.join(ctx.work, "rp.*.ndjson")))
        bad, _ = ctx.validate_traces("TraceSession.tla", "TraceSession.cfg", files)
        mine = [b for b in bad if b["prop"] == rec["property"]]
        for b in mine:
            print("REPRODUCED property=%s %s" % (b["prop"], b["what"]))
        if not mine:
            print("not reproduced")
        raise SystemExit(1 if mine else 0)
    if rec.get("pipeline") == "body":
        cf = os.path.join(ctx.work, "rp.cases.ndjson")
        open(cf, "w").write(json.dumps(rec["case"]) + "\n")
        ctx.run_hx(["body", "-cases", cf, "-layouts", "4", "-out", os.path.join(ctx.work, "rp"), "-shards", "1"])
        bad, _ = ctx.validate_traces("TraceBody.tla", "TraceBody.cfg", sorted(glob.glob(os.path.join(ctx.work, "rp.*.ndjson"))))
        mine = [b for b in bad if b["prop"] == rec["property"]]
        for b in mine:
            print("REPRODUCED property=%s %s" % (b["prop"], b["what"]))
        if not mine:
            print("not reproduced")
        raise SystemExit(1 if mine else 0)
    raise Infra("unknown replay record")


# ------------------------------------------------------------------------------------------------
# generic "driver + TraceSession" pipeline for det / frame / shift
# ------------------------------------------------------------------------------------------------
def driver_trace(ctx, runs, count_key):
    files, n = [], 0
    for i, args in enumerate(runs):
        pre = os.path.join(ctx.work, "d%d" % i)
        p = ctx.run_hx(args + ["-out", pre, "-seed", str(ctx.seed)])
        if p.returncode == 3:
            hang = open(pre + ".hang").read()
            return None, {"hang": hang}, []
        info = json.loads(p.stdout.strip().splitlines()[-1])
        n += info.get(count_key, 0)
        files += sorted(glob.glob(pre + ".*.ndjson"))
    if not files or n == 0:
        raise Infra("driver produced nothing")
    bad, events = ctx.validate_traces("TraceSession.tla", "TraceSession.cfg", files)
    for b in bad:
        if b["prop"] == "MODEL":
            raise Infra("model/harness disagreement: %s line %d: %s" % (b["file"], b["l"], b["what"]))
    return [b for b in bad if b["prop"] == ctx.prop], {"n": n, "events": events}, files


def world_of(evs, l):
    for i in range(l - 1, -1, -1):
        if evs[i]["ev"] == "Init":
            return evs[i].get("world")
    return None


@pipeline("C03")
def p_c03(ctx):
    q = [["det", "-worlds", "kinds,tf,tfbad,hostile", "-rounds", "6", "-stride", "9"]]
    t = [["det", "-worlds", "kinds,tf,tfbad,hostile", "-rounds", "30", "-stride", "2"]]
    bad, info, files = driver_trace(ctx, q if ctx.quick else t, "events")
    viols, keys, samples = [], set(), []
    cache = {}
    for f in files:
        evs = [json.loads(x) for x in open(f)]
        cache[f] = evs
        for e in evs:
            if e["ev"] == "Det":
                keys.add((f, e["key"]))
        samples += [e for e in evs if e["ev"] == "Det"][:2]
    for b in bad or []:
        evs = cache[b["file"]]
        e = evs[b["l"] - 1]
        kind = e["key"].split("|")[0]
        viols.append({"what": "result of %s is not a function of its inputs (regime %s)" % (kind, e.get("regime")),
                      "replay": {"pipeline": "det", "world": world_of(evs, b["l"]), "key": e["key"], "regime": e.get("regime")}})
    finish(ctx, viols, {
        "evaluations": info["n"], "distinct_nontrivial": len(keys),
        "rule": "one case = one query key (kind, path, file, offset, prefill); every key is run repeatedly on one decoder in shuffled order, on fresh decoders "
                "and on freshly built contexts; the memo rule of Session!Det rejects two different digests for one key; evaluations = library calls",
        "traces_validated_against_impl": len(files), "trace_events": info["events"], "samples": samples[:4], "exhaustive": False},
        assumptions=["digests are order-sensitive for every slice except hcl.Diagnostics (multiset) and render Go maps in key order"])


@pipeline("C04")
def p_c04(ctx):
    # (1) fingerprint around every single query of a shuffled mixed workload
    q = [["frame", "-worlds", "kinds,tf,tfbad,hostile", "-stride", "29"]]
    t = [["frame", "-worlds", "kinds,tf,tfbad,hostile", "-stride", "3"]]
    bad, info, files = driver_trace(ctx, q if ctx.quick else t, "events")
    viols = []
    for b in bad or []:
        evs = [json.loads(x) for x in open(b["file"])]
        e = evs[b["l"] - 1]
        viols.append({"what": b["what"], "replay": {"pipeline": "frame", "world": world_of(evs, b["l"]), "kind": e.get("k"), "at": e.get("at"), "file": e.get("f")}})
    # (2) fingerprint after every query batch of typing histories (incl. error outcomes on broken buffers)
    v2, cov2, files2 = session_family(ctx, extra_args=["-fpevery", "1" if not ctx.quick else "3"])
    viols += v2
    samples = []
    for f in files[:2]:
        for x in open(f):
            e = json.loads(x)
            if e["ev"] == "Q":
                samples.append({"kind": e["k"], "at": e.get("at"), "fp_after": e["fp"], "hist": e["hist"]})
                break
    finish(ctx, viols, {
        "evaluations": info["n"] + cov2["evaluations"], "distinct_nontrivial": info["n"] + cov2["distinct_nontrivial"],
        "rule": "case = one query (frame driver: deep fingerprint of every PathContext incl. unexported fields, schema, files, AST, functions, targets, origins, taken "
                "after every single query) or one buffer state of a typing history (fingerprint after every query batch); Session!Query requires fp' = fp",
        "traces_validated_against_impl": len(files) + len(files2), "trace_events": info["events"] + cov2["trace_events"],
        "samples": samples, "exhaustive": False},
        assumptions=["the fingerprint is a reflection walk (maps in key order, functions by identity); a change invisible to reflection is not seen"])


@pipeline("C18")
def p_c18(ctx):
    # the algebra of text-moving edits on the specification's text model (ShiftSound, LenAdditive) on all small buffers
    ctx.tlc("MC_Text.tla", "MC_Text_quick.cfg" if ctx.quick else "MC_Text.cfg", "mctext", workers=8, timeout=1800)
    q = [["shift", "-worlds", "kinds,tf", "-stride", "5", "-maxins", "8"]]
    t = [["shift", "-worlds", "kinds,tf,hostile", "-stride", "1", "-maxins", "0"]]
    bad, info, files = driver_trace(ctx, q if ctx.quick else t, "queries")
    viols, samples, nshift = [], [], 0
    for f in files:
        for x in open(f):
            e = json.loads(x)
            if e["ev"] == "InsertLines":
                nshift += 1
                if len(samples) < 3:
                    samples.append({"edit": e["note"], "file": e["f"]})
    for b in bad or []:
        evs = [json.loads(x) for x in open(b["file"])]
        e = evs[b["l"] - 1]
        ins = None
        for i in range(b["l"] - 1, -1, -1):
            if evs[i]["ev"] == "InsertLines":
                ins = evs[i]
                break
        viols.append({"what": b["what"], "replay": {"pipeline": "shift", "world": world_of(evs, b["l"]), "edit": ins and ins["note"], "file": e.get("f"),
                                                    "example": e.get("example"), "pairs": [e["pairs"][i - 1] for i in b.get("idx", [])][:5]}})
    finish(ctx, viols, {
        "evaluations": info["n"], "distinct_nontrivial": nshift,
        "rule": "case = one (document, insertion line, inserted lines) triple; every query kind is run before the edit and, at the moved cursor, after it; "
                "TLC applies Session!InsertLinesAt to its text model and checks every reported position against Text!ShiftPos; evaluations = query pairs",
        "traces_validated_against_impl": len(files), "trace_events": info["events"], "samples": samples, "exhaustive": not ctx.quick},
        assumptions=["inserted material: blank lines, #, // (multi-byte) and /* */ comment lines placed before a top-level item or after the last one"])


# ------------------------------------------------------------------------------------------------
# Body family: C07 C15 (C16 adds its own part) - direction A (MC_Body -> replay) + TraceBody
# ------------------------------------------------------------------------------------------------
def tlc_cases(ctx, module, cfg, name, workers=8, timeout=3000):
    """Run an MC config that prints JSON cases from a state constraint; returns path of the de-duplicated case file."""
    out, ok = ctx.tlc(module, cfg, name, workers=workers, timeout=timeout)
    seen, path = set(), os.path.join(ctx.work, name + ".cases.ndjson")
    with open(path, "w") as f:
        for line in out.splitlines():
            if line.startswith('"{'):
                s = json.loads(line)
                key = json.dumps(json.loads(s), sort_keys=True)
                if key not in seen:
                    seen.add(key)
                    f.write(s + "\n")
    if not seen:
        raise Infra("%s/%s printed no cases:\n%s" % (module, cfg, out[-1500:]))
    return path, len(seen)


def sens(ctx, module, cfg, name):
    """A sensitivity config (the spec with a named deviation enabled) must be rejected by TLC, otherwise the MC check is vacuous."""
    out, ok = ctx.tlc(module, cfg, name, workers=4, timeout=600, expect_violation=True)
    if "Invariant" not in out or "is violated" not in out:
        raise Infra("sensitivity config %s was not rejected by TLC (vacuous model?)\n%s" % (cfg, out[-800:]))


def body_family(ctx, want):
    cfg = "MC_Body_quick.cfg" if ctx.quick else "MC_Body_full.cfg"
    cases, ncases = tlc_cases(ctx, "MC_Body.tla", cfg, "mcbody")
    sens(ctx, "MC_Body.tla", "MC_Body_sens.cfg", "mcbodysens")
    files, nev = [], 0
    runs = [["body", "-cases", cases, "-layouts", "2" if ctx.quick else "4", "-out", os.path.join(ctx.work, "ba")],
            ["body", "-gen", "3000" if ctx.quick else "60000", "-layouts", "2" if ctx.quick else "3", "-out", os.path.join(ctx.work, "bg")]]
    for r in runs:
        p = ctx.run_hx(r + ["-seed", str(ctx.seed)])
        info = json.loads(p.stdout.strip().splitlines()[-1])
        nev += info["events"]
    files = sorted(glob.glob(os.path.join(ctx.work, "ba.*.ndjson")) + glob.glob(os.path.join(ctx.work, "bg.*.ndjson")))
    bad, events = ctx.validate_traces("TraceBody.tla", "TraceBody.cfg", files)
    viols, samples, distinct = [], [], set()
    cache = {}
    for f in files:
        cache[f] = [json.loads(x) for x in open(f)]
        for e in cache[f]:
            if e["ev"] == "Body":
                distinct.add((os.path.basename(f)[:2], e["case"]))
        if len(samples) < 3 and cache[f]:
            e = cache[f][len(cache[f]) // 2]
            samples.append({"doc": e.get("doc"), "cur": e.get("cur"), "obs": e.get("obs")})
    for b in bad:
        if b["prop"] not in want:
            continue
        e = cache[b["file"]][b["l"] - 1]
        viols.append({"what": b["what"], "prop": b["prop"],
                      "replay": {"pipeline": "body", "case": {"schema": e["schema"], "doc": e["doc"], "cur": e["cur"]}, "layout": e["layout"], "obs": e["obs"]}})
    cov = {"evaluations": nev, "distinct_nontrivial": len(distinct),
           "rule": "case = (abstract schema, document, cursor): every state of the exhaustive MC_Body universe (%s; sampled emission in the thorough tier) plus seeded random cases "
                   "beyond its bounds, each rendered in several layouts and run through the real completion/validation; TraceBody.tla recomputes CandP / LabelCandP / Diags and compares" % cfg,
           "traces_validated_against_impl": len(files), "trace_events": events, "tlc_cases": ncases, "samples": samples,
           "exhaustive": ctx.quick}
    return viols, cov


@pipeline("C07")
def p_c07(ctx):
    viols, cov = body_family(ctx, {"C07"})
    finish(ctx, viols, cov, assumptions=["names over [a-z0-9_]; a block type shadowed by a non-declarable attribute and the any-attribute placeholder may or may not be offered (DESIGN 5/C07)"])


@pipeline("C15")
def p_c15(ctx):
    viols, cov = body_family(ctx, {"C15"})
    finish(ctx, viols, cov, assumptions=["nothing is asserted about items nested inside a block without schema (unknown type / block schema without body)"])


@pipeline("C16")
def p_c16(ctx):
    # (1) canonical keys: every listing of every key set -> real NewSchemaKey -> "same set <=> same key"
    kcases, nk = tlc_cases(ctx, "MC_Keys.tla", "MC_Keys_quick.cfg" if ctx.quick else "MC_Keys_full.cfg", "mckeys")
    p = ctx.run_hx(["keys", "-cases", kcases, "-out", os.path.join(ctx.work, "kk")])
    nke = json.loads(p.stdout.strip().splitlines()[-1])["events"]
    # (2) every feature sees the selected body; links: the "dep" universe of MC_Body (+ DepAgree on the model)
    dcases, nd = tlc_cases(ctx, "MC_Body.tla", "MC_Body_dep.cfg", "mcdep")
    p = ctx.run_hx(["body", "-cases", dcases, "-layouts", "2" if ctx.quick else "4", "-out", os.path.join(ctx.work, "bd"), "-seed", str(ctx.seed)])
    nde = json.loads(p.stdout.strip().splitlines()[-1])["events"]
    files = sorted(glob.glob(os.path.join(ctx.work, "kk.*.ndjson")) + glob.glob(os.path.join(ctx.work, "bd.*.ndjson")))
    bad, events = ctx.validate_traces("TraceBody.tla", "TraceBody.cfg", files)
    viols, samples = [], []
    for b in bad:
        if b["prop"] != "C16":
            continue
        e = json.loads(open(b["file"]).read().splitlines()[b["l"] - 1])
        if e["ev"] == "Key":
            viols.append({"what": b["what"], "replay": {"pipeline": "keys", "ls": e["ls"], "as": e["as"], "key": e["key"]}})
        else:
            viols.append({"what": b["what"], "replay": {"pipeline": "body", "case": {"schema": e["schema"], "doc": e["doc"], "cur": e["cur"], "feat": True},
                                                        "layout": e["layout"], "obs": e["obs"]}})
    for f in files[:3]:
        e = json.loads(open(f).readline())
        samples.append({k: e[k] for k in e if k in ("ev", "ls", "as", "key", "doc", "obs")})
    finish(ctx, viols, {
        "evaluations": nke + nde, "distinct_nontrivial": nk + nd,
        "rule": "case = one listing (permutation) of a set of label/attribute dependency keys (all sets over 3 label indices x 2 values and 3 attribute names x %d values), or one "
                "(block schema with dependent bodies incl. a second level and defaults, block) pair of the MC_Body 'dep' universe in which every dependent body owns a probe attribute; "
                "all are non-trivial" % (3 if ctx.quick else 5),
        "traces_validated_against_impl": len(files), "trace_events": events, "samples": samples, "exhaustive": True},
        assumptions=["feature agreement is observed through probe attributes: tokens, hover, targets, origins, validation and links must treat exactly the attributes of "
                     "static + selected dependent body as known; completion and validation against the same Effective() operator are C07/C15"])


@pipeline("C17")
def p_c17(ctx):
    ctx.tlc("MC_Copy.tla", "MC_Copy.cfg", "mccopy", workers=2, timeout=300)
    sens(ctx, "MC_Copy.tla", "MC_Copy_sens.cfg", "mccopysens")
    pre = os.path.join(ctx.work, "cp")
    p = ctx.run_hx(["copy", "-out", pre, "-n", "40" if ctx.quick else "600", "-mut", "12" if ctx.quick else "40", "-seed", str(ctx.seed)])
    info = json.loads(p.stdout.strip().splitlines()[-1])
    files = sorted(glob.glob(pre + ".*.ndjson"))
    bad, events = ctx.validate_traces("TraceCopy.tla", "TraceCopy.cfg", files)
    viols, samples, types = [], [], set()
    evs = [json.loads(x) for x in open(files[0])]
    for e in evs:
        types.add(e["type"])
    for b in bad:
        e = evs[b["l"] - 1]
        viols.append({"what": "%s: %s" % (e["type"], b["what"]), "replay": {"pipeline": "copy", "type": e["type"], "case": e["case"], "event": {k: e[k] for k in e if k not in ("orig", "copy")}}})
    samples = [{k: e[k] for k in ("type", "status", "orig")} for e in evs if e["ev"] == "Copy" and len(e["orig"]["shape"]) > 3][:2] + [e for e in evs if e["ev"] == "Mutate"][:2]
    finish(ctx, viols, {
        "evaluations": info["cases"] + info["mutations"], "distinct_nontrivial": info["cases"],
        "rule": "case = one value of one of %d root types with a Copy() method, every exported field populated by reflection over the real struct definitions (nil / empty / 1-2 entries per "
                "container, every constraint kind, nesting <= 3); its heap graph and the copy's are compared by TraceCopy (Iso, Disjoint), then up to N containers of each side are mutated "
                "(map add/delete/replace, slice replace, struct field) and the other side's digest must not change" % len(types),
        "traces_validated_against_impl": len(files), "trace_events": events, "samples": samples, "exhaustive": False},
        assumptions=["constraints, addresses, cty types/values are immutable values (folded into the scalar digest, may be shared)", "nil and empty containers are the same abstract value; "
                     "a map that is non-nil in the original must accept entries in the copy", "nil root pointers and nil elements of maps/slices are not schema values"])


@pipeline("C20")
def p_c20(ctx):
    cases, n = tlc_cases(ctx, "MC_Sig.tla", "MC_Sig_quick.cfg" if ctx.quick else "MC_Sig_full.cfg", "mcsig", timeout=3000)
    pre = os.path.join(ctx.work, "sg")
    p = ctx.run_hx(["sig", "-cases", cases, "-out", pre, "-every", "3" if ctx.quick else "5"])
    info = json.loads(p.stdout.strip().splitlines()[-1])
    files = sorted(glob.glob(pre + ".*.ndjson"))
    bad, events = ctx.validate_traces("TraceSig.tla", "TraceSig.cfg", files)
    viols = []
    for b in bad:
        e = json.loads(open(b["file"]).read().splitlines()[b["l"] - 1])
        viols.append({"what": b["what"], "replay": {"pipeline": "sig", "tree": e["tree"], "loc": e["loc"], "layout": e["layout"], "obs": e["obs"]}})
    samples = [json.loads(open(files[0]).readline())]
    finish(ctx, viols, {
        "evaluations": info["events"], "distinct_nontrivial": info["cases"],
        "rule": "case = (call tree of depth <= 2 over 5 known signatures (0..2 fixed parameters, with/without variadic) and an unknown function, closed or not, with/without trailing comma; "
                "abstract cursor location in a call); TLC checks Impl(tree,loc) in Allowed(tree,loc) for all %d states; every k-th case is rendered in 4 layouts (spaces, newlines, comments, "
                "compact) and the real SignatureAtPos is compared by TraceSig with Allowed" % n,
        "traces_validated_against_impl": len(files), "trace_events": events, "samples": samples, "exhaustive": False},
        assumptions=["for calls without closing parenthesis only the loose reading is asserted (none, or a known call of the expression with a valid index)",
                     "with too many arguments and no variadic parameter, falling back to the enclosing call is tolerated (DESIGN 5/C20)"])


@pipeline("C06")
def p_c06(ctx):
    # (1) every completion result of the typing histories: edit ranges, stops, limit (Session.tla predicates)
    viols, cov, files1 = session_family(ctx)
    # (2) Snippet.tla: StopsOK on the transcription for the whole universe + sensitivity; replay on the real producers
    q = "quick" if ctx.quick else "full"
    c1, n1 = tlc_cases(ctx, "MC_Snippet.tla", "MC_Snippet_cons_%s.cfg" % q, "mcsnipc", timeout=3000)
    c2, n2 = tlc_cases(ctx, "MC_Snippet.tla", "MC_Snippet_body_%s.cfg" % q, "mcsnipb", timeout=3000)
    sens(ctx, "MC_Snippet.tla", "MC_Snippet_sens.cfg", "mcsnipsens")
    nev = 0
    for i, c in enumerate((c1, c2)):
        p = ctx.run_hx(["snip", "-cases", c, "-out", os.path.join(ctx.work, "sn%d" % i)])
        nev += json.loads(p.stdout.strip().splitlines()[-1])["events"]
    # (3) population sweep: limit and completeness, hooks
    p = ctx.run_hx(["pop", "-out", os.path.join(ctx.work, "pop")])
    nev += json.loads(p.stdout.strip().splitlines()[-1])["events"]
    files = sorted(glob.glob(os.path.join(ctx.work, "sn*.ndjson")) + glob.glob(os.path.join(ctx.work, "pop.*.ndjson")))
    bad, events = ctx.validate_traces("TraceSnip.tla", "TraceSnip.cfg", files)
    drift = 0
    for f in files:
        drift += json.load(open(f + ".viol.json")).get("drift", 0)
    for b in bad:
        e = json.loads(open(b["file"]).read().splitlines()[b["l"] - 1])
        viols.append({"what": b["what"], "replay": {"pipeline": "snip", "event": e}})
    cov["evaluations"] += nev
    cov["distinct_nontrivial"] += n1 + n2
    cov["traces_validated_against_impl"] += len(files)
    cov["trace_events"] += events
    cov["snippet_cases"] = {"constraint_trees": n1, "bodies": n2, "model_drift_events": drift}
    cov["rule"] += "; plus one case per (constraint tree, prefill) and per (label count, body schema) of MC_Snippet, and the population sweep (0..250 candidates from six sources, with and without prefix, hooks)"
    finish(ctx, viols, cov, assumptions=["model drift (transcription M of a producer differs from the code while StopsOK holds) is reported in the evidence, never as a violation"])


def parse_race_logs(prefix):
    """Go race detector reports (GORACE=log_path=prefix) -> list of {site, kind}."""
    out = []
    for f in sorted(glob.glob(prefix + ".*")):
        txt = open(f, errors="replace").read()
        for blk in txt.split("WARNING: DATA RACE")[1:]:
            frames = re.findall(r"^\s+(github\.com/hashicorp/hcl-lang/[^\s(]+)", blk, re.M)
            site = " <-> ".join(dict.fromkeys(x.replace("github.com/hashicorp/hcl-lang/", "") for x in frames[:2])) or "outside hcl-lang"
            out.append({"ev": "Race", "kind": "data race", "site": site})
    return out


@pipeline("C05")
def p_c05(ctx):
    # (1) the model: all interleavings of the worker model; the named deviation must be rejected
    ctx.tlc("Concurrent.tla", "MC_Conc.cfg", "mcconc", workers=8, timeout=900)
    sens(ctx, "Concurrent.tla", "MC_Conc_sens.cfg", "mcconcsens")
    # (2) the implementation under the race detector: unsynchronised goroutines on one shared context
    hxr = ctx.build(race=True)
    rlog = os.path.join(ctx.work, "racelog")
    pre = os.path.join(ctx.work, "rc")
    p = ctx.run_hx(["race", "-out", pre, "-seed", str(ctx.seed), "-goroutines", "16" if ctx.quick else "48", "-rounds", "2" if ctx.quick else "6",
                    "-stride", "11" if ctx.quick else "3"], binary=hxr, env={"GORACE": "log_path=%s halt_on_error=0" % rlog}, timeout=7200, ok_codes=(0, 66))
    n1 = json.loads(p.stdout.strip().splitlines()[-1])["events"]
    # (3) TLC-generated schedules forced with the scheduler gates
    scases, ns = tlc_cases(ctx, "Sched.tla", "Sched_quick.cfg" if ctx.quick else "Sched_full.cfg", "sched", workers=2)
    pre2 = os.path.join(ctx.work, "sc")
    p = ctx.run_hx(["sched", "-cases", scases, "-out", pre2, "-seed", str(ctx.seed), "-world", "tf", "-pairs", "3" if ctx.quick else "6"], binary=hxr,
                   env={"GORACE": "log_path=%s halt_on_error=0" % rlog}, timeout=7200, ok_codes=(0, 66))
    info2 = json.loads(p.stdout.strip().splitlines()[-1])
    races = parse_race_logs(rlog)
    rf = os.path.join(ctx.work, "races.000.ndjson")
    with open(rf, "w") as f:
        f.write(json.dumps({"ev": "Init", "p": "p1", "world": "-", "files": []}) + "\n")
        seen = set()
        for r in races:
            if r["site"] not in seen:
                seen.add(r["site"])
                f.write(json.dumps(r) + "\n")
    files = sorted(glob.glob(pre + ".*.ndjson") + glob.glob(pre2 + ".*.ndjson")) + [rf]
    bad, events = ctx.validate_traces("TraceSession.tla", "TraceSession.cfg", files)
    viols = []
    for b in bad:
        if b["prop"] != "C05":
            continue
        e = json.loads(open(b["file"]).read().splitlines()[b["l"] - 1])
        if e["ev"] == "Det":
            kind = e["key"].split("|")[0]
            viols.append({"what": "concurrent result of %s differs from the sequential result" % kind, "replay": {"pipeline": "race", "key": e["key"], "regime": e.get("regime")}})
        else:
            viols.append({"what": b["what"], "replay": {"pipeline": "race", "event": e}})
    finish(ctx, viols, {
        "evaluations": n1 + info2["events"], "distinct_nontrivial": ns + 3,
        "rule": "case = one TLC-generated schedule (interleaving of the first K gate steps of two queries, K=%s, all of them) forced with blocking gates, or one world in which 16-48 "
                "unsynchronised goroutines issue the mixed workload on one shared PathContext under the Go race detector; every result digest goes through the memo rule against the sequential run" % ("4" if ctx.quick else "6"),
        "traces_validated_against_impl": len(files), "trace_events": events, "race_reports": len(races), "gate_parks": info2["parks"],
        "samples": [json.loads(x) for x in open(files[0]).read().splitlines()[1:3]], "exhaustive": False},
        assumptions=["the 'no data race' half is observed by the Go race detector (happens-before), the only instrument that sees the implementation's memory accesses; a race on a path no generated query reaches is not seen",
                     "gates exist in MergeBlockBodySchemas only"])


# ------------------------------------------------------------------------------------------------
# Expression family: C10 (and the value parts of C13 / C12 / C08 / C11) - MC_Expr -> replay -> TraceExpr
# ------------------------------------------------------------------------------------------------
def expr_family(ctx, want):
    cases, n = tlc_cases(ctx, "MC_Expr.tla", "MC_Expr_quick.cfg" if ctx.quick else "MC_Expr_full.cfg", "mcexpr", timeout=3000)
    pre = os.path.join(ctx.work, "ex")
    p = ctx.run_hx(["expr", "-cases", cases, "-out", pre, "-styles", "2", "-seed", str(ctx.seed)])
    info = json.loads(p.stdout.strip().splitlines()[-1])
    files = sorted(glob.glob(pre + ".*.ndjson"))
    bad, events = ctx.validate_traces("TraceExpr.tla", "TraceExpr.cfg", files)
    viols = []
    for b in bad:
        if b["prop"] not in want:
            continue
        e = json.loads(open(b["file"]).read().splitlines()[b["l"] - 1])
        viols.append({"what": b["what"], "replay": {"pipeline": "expr", "case": {k: e[k] for k in ("cons", "expr", "level", "flags")}, "layout": e["layout"],
                                                    "observed": {k: e[k] for k in e if k in ("origins", "tokens", "hovers")}}})
    e0 = json.loads(open(files[0]).readline())
    cov = {"evaluations": info["events"], "distinct_nontrivial": n,
           "rule": "case = (constraint, well-typed expression of depth <= D over literals, references (attribute, index, key, legacy index, splat, self, unresolved), lists, objects, templates, "
                   "operators, conditionals, calls of known/unknown functions, parentheses, index and for expressions; placement and self-reference settings), all of MC_Expr's universe",
           "traces_validated_against_impl": len(files), "trace_events": events,
           "samples": [{k: e0[k] for k in ("cons", "expr", "origins")}], "exhaustive": True}
    return viols, cov


@pipeline("C10")
def p_c10(ctx):
    viols, cov = expr_family(ctx, {"C10"})
    finish(ctx, viols, cov, assumptions=["expressions are well typed for their constraint (ill-typed sub-expressions assert nothing)",
                                         "origins are compared by (file, exact range, address); constraints of origins are not part of the statement"])


@pipeline("C11")
def p_c11(ctx):
    # (1) model: the implementation-shaped lookups (deep walk, InnermostAtPos, Origins.Match) against the one relation Resolve;
    #     cases printed and replayed through the real Decoder lookups
    cases, n = tlc_cases(ctx, "MC_Refs.tla", "MC_Refs.cfg", "mcrefs", timeout=3000)
    sens(ctx, "MC_Refs.tla", "MC_Refs_strict.cfg", "mcrefsstrict")   # the stricter reading is violated: the model is not vacuous
    p = ctx.run_hx(["lookup", "-cases", cases, "-out", os.path.join(ctx.work, "lc")])
    n1 = json.loads(p.stdout.strip().splitlines()[-1])["events"]
    # (2) real worlds: every collected origin of every path (multi-path workspace with path / implied / direct origins, unreadable path)
    p = ctx.run_hx(["lookup", "-worlds", "kinds,tf,hostile,mods,modsbroken", "-out", os.path.join(ctx.work, "lw")])
    n2 = json.loads(p.stdout.strip().splitlines()[-1])["events"]
    files = sorted(glob.glob(os.path.join(ctx.work, "lc.*.ndjson")) + glob.glob(os.path.join(ctx.work, "lw.*.ndjson")))
    bad, events = ctx.validate_traces("TraceSession.tla", "TraceSession.cfg", files)
    viols, cache = [], {}
    for b in bad:
        if b["prop"] != "C11":
            continue
        if b["file"] not in cache:
            cache[b["file"]] = [json.loads(x) for x in open(b["file"])]
        evs = cache[b["file"]]
        e = evs[b["l"] - 1]
        viols.append({"what": b["what"], "replay": {"pipeline": "lookup", "world": world_of(evs, b["l"]), "event": e}})
    samples = []
    for f in files:
        samples += [json.loads(x) for x in open(f).read().splitlines()[:400] if '"Lookup"' in x and '"targets":[{' in x][:1]
    samples = samples[:3] or [{"note": "no lookup with targets in the first lines"}]
    # (3) generated configurations: every written reference resolves to exactly the declaration its address denotes
    v3, cov3 = expr_family(ctx, {"C11"})
    viols += v3
    finish(ctx, viols, {
        "evaluations": n1 + n2 + cov3["evaluations"], "distinct_nontrivial": n + 5 + cov3["distinct_nontrivial"],
        "rule": "case = one world of MC_Refs (nested targets with/without definition range, typed/untyped, dynamic; 1-2 origins with/without constraints) stored in a real PathContext, or one of 5 "
                "real worlds (incl. a 3-path workspace with path, implied and direct origins, a path sharing its directory with another, an unreadable path); go-to-definition is asked at start / middle / "
                "last byte of every origin and find-references at the definition of every reported declaration",
        "traces_validated_against_impl": len(files), "trace_events": events, "samples": samples, "exhaustive": False},
        assumptions=["the inverse property constrains declarations that have a definition range (DESIGN 5/C11); the stricter reading is shown to fail on the model and is not asserted"])


def session_plus_expr(ctx, assumptions):
    viols, cov, _ = session_family(ctx)
    v2, cov2 = expr_family(ctx, {ctx.prop})
    viols += v2
    cov["evaluations"] += cov2["evaluations"]
    cov["distinct_nontrivial"] += cov2["distinct_nontrivial"]
    cov["traces_validated_against_impl"] += cov2["traces_validated_against_impl"]
    cov["trace_events"] += cov2["trace_events"]
    cov["rule"] += "; plus " + cov2["rule"]
    cov["samples"] = cov["samples"][:2] + cov2["samples"]
    return viols, cov


def body_names(ctx, cov):
    """names / types / labels (tokens with modifiers, hover with the effective schema's description): the 'dep' universe of MC_Body"""
    dcases, nd = tlc_cases(ctx, "MC_Body.tla", "MC_Body_dep.cfg", "mcdepn")
    p = ctx.run_hx(["body", "-cases", dcases, "-layouts", "2" if ctx.quick else "4", "-out", os.path.join(ctx.work, "bn"), "-seed", str(ctx.seed)])
    nde = json.loads(p.stdout.strip().splitlines()[-1])["events"]
    files = sorted(glob.glob(os.path.join(ctx.work, "bn.*.ndjson")))
    bad, events = ctx.validate_traces("TraceBody.tla", "TraceBody.cfg", files)
    viols = []
    for b in bad:
        if b["prop"] != ctx.prop:
            continue
        e = json.loads(open(b["file"]).read().splitlines()[b["l"] - 1])
        viols.append({"what": b["what"], "replay": {"pipeline": "body", "case": {"schema": e["schema"], "doc": e["doc"], "cur": e["cur"], "feat": True}, "layout": e["layout"],
                                                    "obs": {k: e["obs"][k] for k in ("ntoks", "nhov") if k in e["obs"]}}})
    cov["evaluations"] += nde
    cov["distinct_nontrivial"] += nd
    cov["traces_validated_against_impl"] += len(files)
    cov["trace_events"] += events
    cov["rule"] += "; plus the 'dep' universe of MC_Body for attribute names, block types and labels (modifiers accumulated down the block path, descriptions of the effective schema, dependent bodies resolved fully / partially / not at all)"
    return viols


@pipeline("C12")
def p_c12(ctx):
    viols, cov = session_plus_expr(ctx, [])
    viols += body_names(ctx, cov)
    finish(ctx, viols, cov, assumptions=["value hover: the element under the cursor is 'interpretable' iff ExprRules!TokensP assigns it a token; otherwise nothing or an enclosing element may be described",
                                         "regions the statement leaves open (arguments of unknown functions, literal collections under any(dynamic), one-of, known findings) are not asserted"])


@pipeline("C13")
def p_c13(ctx):
    viols, cov = session_plus_expr(ctx, [])
    viols += body_names(ctx, cov)
    finish(ctx, viols, cov, assumptions=["value tokens are compared as sets of (type, exact extent) outside the open regions of ExprRules!OpenTok / OpenIn / OpenKeyItems"])


@pipeline("C14")
def p_c14(ctx):
    viols, cov, _ = session_family(ctx)
    cases, n = tlc_cases(ctx, "MC_Outline.tla", "MC_Outline_quick.cfg" if ctx.quick else "MC_Outline_full.cfg", "mcoutline", timeout=3000)
    pre = os.path.join(ctx.work, "ol")
    p = ctx.run_hx(["outline", "-cases", cases, "-out", pre, "-layouts", "4"])
    info = json.loads(p.stdout.strip().splitlines()[-1])
    files = sorted(glob.glob(pre + ".*.ndjson"))
    bad, events = ctx.validate_traces("TraceOutline.tla", "TraceOutline.cfg", files)
    for b in bad:
        e = json.loads(open(b["file"]).read().splitlines()[b["l"] - 1])
        viols.append({"what": b["what"], "replay": {"pipeline": "outline", "case": {k: e[k] for k in e if k in ("mode", "doc", "query", "paths")}, "layout": e["layout"], "syms": e["syms"]}})
    cov["evaluations"] += info["events"]
    cov["distinct_nontrivial"] += n
    cov["traces_validated_against_impl"] += len(files)
    cov["trace_events"] += events
    cov["rule"] += "; plus every document of MC_Outline (items with literal / list / object / reference values, labelled and nested blocks) and every workspace (3 paths x all subsets of unreadable paths x 7 queries)"
    finish(ctx, viols, cov, assumptions=["native syntax without schema; the JSON outline is covered by C19"])


@pipeline("C09")
def p_c09(ctx):
    cases, n = tlc_cases(ctx, "MC_Targets.tla", "MC_Targets_quick.cfg" if ctx.quick else "MC_Targets_full.cfg", "mctargets", timeout=3000)
    pre = os.path.join(ctx.work, "tg")
    p = ctx.run_hx(["targets", "-cases", cases, "-out", pre, "-layouts", "3" if ctx.quick else "4"])
    info = json.loads(p.stdout.strip().splitlines()[-1])
    p = ctx.run_hx(["targets", "-worlds", "kinds,tf,tfbad,hostile,mods", "-out", pre])
    nw = json.loads(p.stdout.strip().splitlines()[-1])["events"]
    # target trees of the expression family's documents as well (list / object / map values at depth)
    files = sorted(glob.glob(pre + ".*.ndjson"))
    bad, events = ctx.validate_traces("TraceTargets.tla", "TraceTargets.cfg", files)
    viols = []
    for b in bad:
        e = json.loads(open(b["file"]).read().splitlines()[b["l"] - 1])
        rp = {"pipeline": "targets", "layout": e.get("layout")}
        if e["ev"] == "Targets":
            rp.update({"case": {"schema": e["schema"], "doc": e["doc"]}, "top": e["top"]})
        else:
            rp.update({"world": e["world"], "path": e["p"]})
        viols.append({"what": b["what"], "replay": rp})
    e0 = json.loads(open(files[0]).readline())
    finish(ctx, viols, {
        "evaluations": info["events"] + nw, "distinct_nontrivial": n,
        "rule": "case = (schema variant, document of <= MaxItems items from a pool of 21 declarations: blocks addressed by static / label / attribute-value steps, as reference, as type of an "
                "attribute, body as data, dependent body as data, TargetableAs of static and attribute-selected dependent bodies, any-attribute bodies, addressable attributes incl. keyword "
                "constraints, count / for_each, unresolvable addresses, unknown items); the exact set of top-level targets is compared; the structural predicates on nested targets are "
                "evaluated on these and on the target trees of 5 curated worlds",
        "traces_validated_against_impl": len(files), "trace_events": events, "samples": [{"doc": e0.get("doc"), "top": e0.get("top")}], "exhaustive": True},
        assumptions=["types are compared by friendly name where Targets.tla pins them down ('?' otherwise)",
                     "nested targets are constrained by the structural predicates only (one step, index = source order, key = written key, inside the parent's range)"])


@pipeline("C19")
def p_c19(ctx):
    cases, n = tlc_cases(ctx, "MC_Targets.tla", "MC_Targets_quick.cfg" if ctx.quick else "MC_Targets_full.cfg", "mctargets19", timeout=3000)
    pre = os.path.join(ctx.work, "sy")
    p = ctx.run_hx(["syntax", "-cases", cases, "-out", pre])
    info = json.loads(p.stdout.strip().splitlines()[-1])
    if info["events"] == 0:
        raise Infra("no case expressible in both syntaxes")
    files = sorted(glob.glob(pre + ".*.ndjson"))
    bad, events = ctx.validate_traces("TraceSyntax.tla", "TraceSyntax.cfg", files)
    viols = []
    for b in bad:
        e = json.loads(open(b["file"]).read().splitlines()[b["l"] - 1])
        viols.append({"what": b["what"], "replay": {"pipeline": "syntax", "case": {"schema": e["schema"], "doc": e["doc"]}, "native": e["native"], "json": e["json"]}})
    e0 = json.loads(open(files[0]).readline())
    finish(ctx, viols, {
        "evaluations": 2 * info["events"], "distinct_nontrivial": info["cases"],
        "rule": "case = a (schema variant, document) pair of MC_Targets that is expressible in both syntaxes (known block types with exactly the schema's labels, schema-known attributes): "
                "labelled / nested blocks, literals of all types, lists, objects, references as \"${..}\" templates, templates with a literal prefix, any-attribute bodies with nested blocks, "
                "count / for_each; both renderings are loaded and compared with each other and with TargetsP / the item tree",
        "traces_validated_against_impl": len(files), "trace_events": events, "samples": [{"doc": e0["doc"], "native": e0["native"], "json": e0["json"]}], "exhaustive": True},
        assumptions=["ranges and block-local (self / count / each) targets are excluded, as the statement says", "origins are compared by address (constraints lose precision in JSON strings)"])


@pipeline("C08")
def p_c08(ctx):
    cases, n = tlc_cases(ctx, "MC_ValComp.tla", "MC_ValComp.cfg", "mcvalcomp", workers=4)
    pre = os.path.join(ctx.work, "vc")
    p = ctx.run_hx(["valcomp", "-cases", cases, "-out", pre])
    info = json.loads(p.stdout.strip().splitlines()[-1])
    files = sorted(glob.glob(pre + ".*.ndjson"))
    bad, events = ctx.validate_traces("TraceValComp.tla", "TraceValComp.cfg", files)
    viols = []
    ncand = 0
    for f in files:
        for x in open(f):
            ncand += len(json.loads(x)["cands"])
    for b in bad:
        e = json.loads(open(b["file"]).read().splitlines()[b["l"] - 1])
        viols.append({"what": b["what"], "replay": {"pipeline": "valcomp", "case": {k: e[k] for k in ("cons", "typed", "place")}, "cands": e["cands"]}})
    e0 = [json.loads(x) for x in open(files[0])][5]
    finish(ctx, viols, {
        "evaluations": ncand, "distinct_nontrivial": info["cases"],
        "rule": "case = (constraint at the cursor: any-expression of 7 types, reference of 3 types, literal, keyword, list of references, set of any; typed text out of 20 prefixes incl. "
                "partial addresses, self., function and keyword prefixes; placement: root, inside a block with self references on / off, inside the block whose attribute is being edited); "
                "evaluations = candidates judged; every reference candidate that fits by itself is accepted and go-to-definition asked at the inserted text",
        "traces_validated_against_impl": len(files), "trace_events": events, "samples": [{k: e0[k] for k in ("cons", "typed", "place", "cands")}], "exhaustive": True},
        assumptions=["whether a declared / return type converts to the expected type is cty's convert, evaluated by the harness and logged (conv / fnconv tables)",
                     "reference and function candidates are checked for soundness (the statement says 'every candidate is ...'), keyword / boolean candidates for exactness"])
