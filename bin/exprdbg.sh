#!/bin/bash
# developer aid: regenerate MC_Expr cases, replay, validate, summarise
set -e
cd /verif/harness && GOFLAGS=-mod=mod GOPROXY=off GOSUMDB=off GOTOOLCHAIN=local go build -tags verif -o /verif/.work/bin/hx .
mkdir -p /verif/.work/ex && cd /verif/.work/ex && cp ../../spec/*.tla ../../spec/*.cfg . && export JAVA_TOOL_OPTIONS=-Xss512m
timeout 900 tlc -noGenerateSpecTE -workers 8 -metadir $PWD/meta-f -config MC_Expr_${1:-full}.cfg MC_Expr.tla > out-full.txt 2>&1 || true
grep -E "rror|violated" out-full.txt | head -5 || true
python3 - <<'PY'
import json
seen=set();out=open('/verif/.work/ex/cases.ndjson','w')
for l in open('/verif/.work/ex/out-full.txt'):
    if l.startswith('"{'):
        s=json.loads(l); k=json.dumps(json.loads(s),sort_keys=True)
        if k not in seen:
            seen.add(k); out.write(s+"\n")
print(len(seen),"cases")
PY
../bin/hx expr -cases cases.ndjson -out ex -shards 2 -styles 1 >/dev/null
for i in 0 1; do TRACE=$PWD/ex.00$i.ndjson VOUT=$PWD/v$i.json timeout 600 tlc -noGenerateSpecTE -workers 1 -metadir $PWD/mt$i -config TraceExpr.cfg TraceExpr.tla 2>&1 | grep -E "rror|line [0-9]+, col" | head -8 || true; done
python3 - <<'PY'
import json,collections
c=collections.Counter()
for i in (0,1):
    v=json.load(open('/verif/.work/ex/v%d.json'%i)); print(v['consumed'], len(v['bad']))
    for b in v['bad']: c[(b['prop'],b['what'])]+=1
for k,v in c.most_common(): print(v,k)
PY
