#!/usr/bin/env python3
import json,collections,sys
def txt(e):
    k=e['k']
    if k=='lit': return json.dumps(e['v']) if e['t']=='string' else str(e['v'])
    if k=='text': return e['v']
    if k=='ref':
        s=''
        for st in e['steps']:
            s+= {'root':lambda v:v,'attr':lambda v:'.'+v,'idx':lambda v:'[%s]'%v,'key':lambda v:'["%s"]'%v,'legacy':lambda v:'.%s'%v,'splat':lambda v:'[*]'}[st['k']](st.get('v'))
        return s
    if k=='list': return '['+', '.join(txt(x) for x in e['es'])+']'
    if k=='tmpl': return '"'+''.join(x['v'] if x['k']=='text' else '${'+txt(x)+'}' for x in e['es'])+'"'
    if k=='obj': return '{'+', '.join((it['key']['v'] if it['key']['k'] in('id','str') else '('+txt(it['key'])+')')+' = '+txt(it['val']) for it in e['items'])+'}'
    if k=='bin': return txt(e['l'])+' '+e['op']+' '+txt(e['r'])
    if k=='un': return e['op']+txt(e['e'])
    if k=='cond': return txt(e['c'])+' ? '+txt(e['tt'])+' : '+txt(e['ff'])
    if k=='call': return e['fn']+'('+', '.join(txt(x) for x in e['es'])+')'
    if k=='paren': return '('+txt(e['e'])+')'
    if k=='index': return txt(e['e'])+'['+txt(e['key'])+']'
    if k=='for': return '[for x in '+txt(e['coll'])+' : '+txt(e['body'])+']'
    return str(e.get('v'))
skip=sys.argv[1:] 
seen=collections.Counter()
for i in (0,1):
    v=json.load(open('/verif/.work/ex/v%d.json'%i))
    evs=[json.loads(l) for l in open('/verif/.work/ex/ex.00%d.ndjson'%i)]
    for b in v['bad']:
        if b['prop'] in skip: continue
        seen[b['what']]+=1
        if seen[b['what']]>4: continue
        e=evs[b['l']-1]; base=e['ext'][''][0]
        print(b['prop'],b['what'],'|',json.dumps(e['cons'])[:70],'|lvl',e['level'],e['flags'],'|',txt(e['expr']))
        print('    tokens:', [(t[0][4:],t[1]-base,t[2]-base) for t in e['tokens']])
        print('    hovers:', [(h[0],h[2],(h[3]-base,h[4]-base) if h[3]>=0 else None,h[5][:25]) for h in e['hovers']][:5])
        print('    lookups:', e['lookups'][:5])
