#!/usr/bin/env python3-vt
import json, jsonschema, glob, sys
m = json.load(open('/verif/MANIFEST.json')); jsonschema.validate(m, json.load(open('/root/.vp/MANIFEST.schema.json'))); print("manifest valid")
s = json.load(open('/root/.vp/EVIDENCE.schema.json'))
for f in sorted(glob.glob('/verif/evidence/*.json')):
    try:
        jsonschema.validate(json.load(open(f)), s); print(f, "valid")
    except Exception as e:
        print(f, "INVALID", str(e)[:300])
