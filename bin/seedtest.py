#!/usr/bin/env python3
"""Run checks against a seeded change in a scratch worktree (never touches /repo's working tree).
usage: seedtest.py [-R] [--thorough] [--first <patch>] <patch> <prop> [<prop>...]
  -R: reverse-apply, e.g. to undo a fix: commit;  --first <patch>: a later fix that touches the same lines, reversed before"""
import sys, subprocess, os, json
ROOT = os.path.dirname(os.path.dirname(os.path.abspath(__file__)))
args = sys.argv[1:]
rev = "-R" in args
thorough = "--thorough" in args
first = []
while "--first" in args:
    i = args.index("--first")
    first.append(os.path.abspath(args[i + 1]))
    del args[i:i + 2]
args = [a for a in args if a not in ("-R", "--thorough")]
patch, props = os.path.abspath(args[0]), args[1:]
name = os.path.basename(os.path.dirname(patch)) if patch.endswith("patch.diff") else os.path.basename(patch)
wt = "/tmp/seedwt-%s-%d" % (name, os.getpid())
def sh(c, **kw):
    return subprocess.run(c, shell=True, capture_output=True, text=True, **kw)
r = sh("git -C /repo worktree add -q --detach %s HEAD" % wt)
if r.returncode: sys.exit(r.stderr)
try:
    for fp in first:
        ap = sh("git -C %s apply -R %s" % (wt, fp))
        if ap.returncode:
            sys.exit("patch does not apply: " + ap.stderr)
    ap = sh("git -C %s apply %s %s" % (wt, "-R" if rev else "", patch))
    if ap.returncode:
        sys.exit("patch does not apply: " + ap.stderr)
    for p in props:
        r = subprocess.run(["python3", os.path.join(ROOT, "bin", "check.py"), p, "--tier", "thorough" if thorough else "quick"], cwd=ROOT, capture_output=True, text=True,
                           env=dict(os.environ, VERIF_NO_EVIDENCE="1", VERIF_REPO=wt))
        lines = [l for l in (r.stdout + r.stderr).splitlines() if l.startswith(("VIOLATION", "INFRA")) or " violation(s)" in l]
        print("== %s%s %s -> exit %d" % (name, " (reversed)" if rev else "", p, r.returncode))
        for l in lines[:5]:
            print("   " + l[:300])
        sys.stdout.flush()
finally:
    sh("git -C /repo worktree remove --force %s; git -C /repo worktree prune" % wt)
