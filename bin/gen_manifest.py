#!/usr/bin/env python3
"""Regenerates /verif/MANIFEST.json from the table below (keeps it valid and current)."""
import json, os, subprocess
ROOT = os.path.dirname(os.path.dirname(os.path.abspath(__file__)))

COMMON_NOTE = ("Trusted base: the Go harness (world/schema builders, renderer, projection, reflection walker), textseg's grapheme segmentation, "
               "TLC and the CommunityModules JSON reader. Bounded exploration: the curated worlds (kinds, tf, tfbad, hostile) and the generated "
               "universes named in DESIGN.md; a VIOLATION is printed only when an observation of the real code violates a P-level predicate of the spec.")

CHECKS = {
    "C01": dict(
        text="Trace validation against Session.tla: every entry point is run on every buffer state of typing histories (all token prefixes, sampled "
             "single-token edits of the seed documents; every cluster-boundary offset or a window around the edit) in four worlds incl. hostile-but-valid "
             "schemas; the spec's outcome alphabet is {ok,error}, so a recorded panic/hang cannot be matched by any Query step and is reported. "
             "Right level: totality is a property of the implementation on concrete inputs; the model supplies the history space and the alphabet.",
        ref="DESIGN.md 5/C01", technique="TLA+ session spec + TLC trace validation of recorded query histories (TraceSession.tla)"),
    "C02": dict(
        text="Trace validation: every hcl.Range reachable (by reflection) from every result of every entry point is checked by TLC against the "
             "specification's own text model (Text.tla: lines of grapheme-cluster widths -> byte/line/column), file membership, 0<=start<=end<=len.",
        ref="DESIGN.md 5/C02", technique="TLA+ text model (Text.tla) + TLC trace validation of all emitted ranges"),
    "C06": dict(
        text="(1) Trace validation of every completion result of the typing histories (Session.tla: EditOK - well-formed, starts at or before the cursor, reaches it up to blanks, "
             "same file; StopsOK; no tab-stops in plain text; at most 100). (2) Snippet.tla transcribes every snippet producer; MC_Snippet checks StopsOK on the transcription for all "
             "constraint trees (depth <= 3, all kinds, with/without prefill) and body schemas, a sensitivity config re-introduces the repaired numbering defect and must be rejected; the "
             "cases are replayed on the real EmptyCompletionData / attribute / value / label / block completion and TraceSnip decides StopsOK on the real stops. (3) Population sweep "
             "(0..250 candidates from attributes, blocks, label values, targets, functions, hooks): TraceSnip decides limit, completeness and hook rules.",
        ref="DESIGN.md 5/C06", technique="TLC trace validation (Session.tla) + TLC model checking of Snippet.tla with replay of TLC-generated cases + TraceSnip (StopsOK, limit/completeness)"),
    "C12": dict(
        text="(1) Trace validation of every hover of the typing histories: non-empty content, well-formed range containing the cursor (Session.tla). (2) Exact part inside values: "
             "for every (constraint, expression) case of MC_Expr the real hover is asked at every leaf; TraceExpr requires the range to be exactly the extent of the leaf when "
             "ExprRules says the schema can interpret it (same operator that defines the tokens), nothing or an enclosing element otherwise; references name their declaration.",
        ref="DESIGN.md 5/C12", technique="TLC trace validation (Session.tla) + TLC model checking of ExprRules.tla with replay of TLC-generated cases + TraceExpr (HoverViol)"),
    "C13": dict(
        text="(1) Trace validation of the tokens of every buffer state (valid and broken): sorted, pairwise disjoint, non-empty, advertised types. (2) Exact part inside values: "
             "ExprRules!TokensP(constraint, expression) gives the schema-known elements (literals, keywords, type names, object/map keys, known function names, steps of references that "
             "resolve to a declared target); TraceExpr compares the real tokens inside the value with it as sets of (type, exact extent) for every case of MC_Expr.",
        ref="DESIGN.md 5/C13", technique="TLC trace validation (Session.tla) + TLC model checking of ExprRules.tla with replay of TLC-generated cases + TraceExpr (TokenViol)"),
    "C14": dict(
        text="(1) Trace validation of the symbol tree of every buffer state of the typing histories: children inside parents, siblings in source order. (2) Outline.tla defines "
             "Symbols(doc) (one per item in source order, names, list elements, literally keyed object items) and WorkspaceQ(query, paths); MC_Outline enumerates documents and "
             "workspaces (3 paths x every subset of unreadable paths x queries incl. ones that span type and quoted labels), checks OnePerItem / Isolation on the model and prints "
             "the cases; TraceOutline compares the real SymbolsInFile trees (names, exact extents, order, nesting) and Decoder.Symbols answers with them.",
        ref="DESIGN.md 5/C14", technique="TLC trace validation (Session.tla) + TLC model checking of Outline.tla (MC_Outline, fault enumeration over unreadable paths) + replay + TraceOutline"),
    "C03": dict(
        text="Trace validation of the memo rule Session!Det: every query key (kind, file, offset) of four worlds is run repeatedly on one decoder in shuffled "
             "order, on fresh decoders and on freshly built contexts (Go re-randomises map iteration each time); TLC rejects two different order-sensitive digests for "
             "one key (diagnostics and write-only attributes compared as multisets, as the property allows).",
        ref="DESIGN.md 5/C03", technique="TLA+ memo rule (Session!Det) + TLC trace validation of repeated / re-ordered / fresh-decoder runs"),
    "C04": dict(
        text="Trace validation of the frame condition of Session!Query: a deep reflection fingerprint (unexported fields, schema tree, files + AST, functions, stored "
             "targets/origins) of every PathContext is recorded after every single query of a shuffled mixed workload and after every query batch of typing "
             "histories (incl. error outcomes); a Query step with fp' # fp is not a step of the specification.",
        ref="DESIGN.md 5/C04", technique="TLA+ frame condition (Session!Query, fp unchanged) + TLC trace validation of fingerprinted query histories"),
    "C18": dict(
        text="Trace validation of Session!InsertLinesAt: for every (document, top-level insertion line, inserted blank/comment lines) the harness runs every query "
             "before the edit and at the moved cursor after it; TLC applies the edit to its own text model (must equal the real new buffer) and checks every "
             "reported position against Text!ShiftPos; payloads must be equal beyond positions.",
        ref="DESIGN.md 5/C18", technique="TLA+ text-moving edit (InsertLinesAt/ShiftPos) + TLC trace validation of before/after observations"),
    "C07": dict(
        text="Exhaustive TLC run over the MC_Body universe (block schemas x labels x bodies x cursors) checking, on the model, CandOK(CandM) (mechanism => property), "
             "AcceptSafe, UnknownQuiet, NoDupOffer and a sensitivity config (the repaired prefix defect must be rejected); every state is printed as a JSON case, built as a real "
             "schema, rendered in several layouts and run through the real CompletionAtPos / ValidateFile; TraceBody.tla recomputes CandP / LabelCandP from the abstract case and "
             "compares (set equality, strict sortedness, accept-safety measured on the real validator). Seeded random cases beyond the bounds go through the same trace spec.",
        ref="DESIGN.md 5/C07", technique="TLC exhaustive model checking of BodyRules.tla (MC_Body) + replay of TLC-generated cases into the real code + TLC trace validation (TraceBody)"),
    "C15": dict(
        text="Same MC_Body universe and random cases as C07: the real ValidateFile/Validate diagnostics are projected to (kind, item path) by subject containment and compared by "
             "TraceBody.tla, as sets without duplicates, with Diags(schema, doc) recomputed by TLC (walker semantics: unknown flag, found/dynamic counters, label checks, deprecations).",
        ref="DESIGN.md 5/C15", technique="TLC model checking of BodyRules.tla + replay of TLC-generated cases + TLC trace validation of real diagnostics (TraceBody)"),
    "C16": dict(
        text="(1) TLC enumerates every listing (permutation) of every set of label/attribute dependency keys (MC_Keys, checks that the sort-based mechanism is canonical); the "
             "harness calls the real schema.NewSchemaKey on each and TraceBody's memo rule decides 'same set <=> same key' over the whole universe. (2) MC_Body in 'dep' mode "
             "enumerates block schemas with dependent bodies (one/two key labels, attribute keys with literal/default/reference values, second level) x blocks; TLC checks "
             "DepAgree on the model; the real tokens, hover, targets, origins, validation and links are observed through probe attributes and compared by TraceBody with "
             "Effective()/LinksP().",
        ref="DESIGN.md 5/C16", technique="TLC model checking (MC_Keys, MC_Body dep mode) + replay of TLC-generated cases + TLC trace validation (TraceBody: memo rule, probe agreement, LinksP)"),
    "C17": dict(
        text="CopyHeap.tla models values as heaps of mutable containers with identities; MC_Copy checks on all heaps of <= 6 nodes that a deep copy is disjoint and that mutations "
             "of either side are invisible to the other, and that the named deviation ShallowAt is rejected. Binding: real values of 32 root types are populated by reflection over the "
             "real struct definitions (future fields included), the real Copy() is called, both heap graphs and the digests after real mutations are logged; TraceCopy decides Iso, "
             "Disjoint and the frame condition.",
        ref="DESIGN.md 5/C17", technique="TLA+ heap model (CopyHeap/MC_Copy) + TLC trace validation of real heap graphs and mutation frames (TraceCopy)"),
    "C20": dict(
        text="Signature.tla defines Allowed(tree, location) (innermost known call whose parentheses contain the cursor, slot index counting commas, clamping to the variadic "
             "parameter, none for surplus arguments) and a transcription Impl of SignatureAtPos; MC_Sig checks Impl in Allowed on every (tree, location) of the universe and prints the "
             "cases; the harness renders them in 4 layouts and TraceSig compares the real answers with Allowed.",
        ref="DESIGN.md 5/C20", technique="TLC exhaustive model checking of Signature.tla (MC_Sig) + replay of TLC-generated cases + TLC trace validation (TraceSig)"),
    "C05": dict(
        text="Concurrent.tla (PlusCal): N workers x queries over shared caller-owned nodes with ownership; TLC explores all interleavings (NoSharedWrite, RaceFree, ResultEqualsSequential) "
             "and rejects the sensitivity configuration with a shared write. Binding: (a) the harness built with -race runs 16-48 unsynchronised goroutines with the mixed workload on one "
             "shared PathContext; race reports become Race events that no specification action allows; (b) every concurrent result digest is validated against the sequential memo "
             "(Session!Det); (c) all schedules of Sched.tla (interleavings of the first K gate steps of two queries) are forced on the real code with blocking gates inside "
             "MergeBlockBodySchemas, with fingerprints of the shared context while a query is parked.",
        ref="DESIGN.md 5/C05", technique="PlusCal/TLA+ interleaving model (Concurrent.tla) + TLC-generated schedules forced via gates + race detector events + TLC trace validation (memo rule)"),
    "C10": dict(
        text="ExprRules.tla defines OriginsP(constraint, expression): the reference leaves at places where the constraint admits a reference or an arbitrary expression (through "
             "lists, maps, objects, templates, operators, conditionals, for, index keys, arguments of known functions, parentheses; self.* only where enabled). MC_Expr enumerates "
             "(constraint, well-typed expression, placement) cases, TLC checks structural invariants of the operators and prints the cases; the harness builds schema + two-file "
             "document, and TraceExpr compares the real CollectReferenceOrigins (file, exact range, address, order, no duplicates) with OriginsP using the renderer's extents.",
        ref="DESIGN.md 5/C10", technique="TLC model checking of ExprRules.tla (MC_Expr) + replay of TLC-generated cases + TLC trace validation (TraceExpr)"),
    "C11": dict(
        text="Refs.tla: one relation Resolve(o,t) (P) and transcriptions of Target.Matches, the deep walk, InnermostAtPos and Origins.Match (M); MC_Refs checks ImplIsSpec and "
             "InverseAtDef on all small worlds of nested targets x origins, and that the stricter reading is violated. The worlds are stored in a real PathContext and the real "
             "Decoder lookups are asked; together with every origin of five real worlds (3-path workspace with path / implied / direct origins, same directory with another language "
             "id, unreadable path) the raw answers are validated by TraceSession!LookupViol: inverse at definitions, resolution in the declared target path, block-local names stay "
             "in their block.",
        ref="DESIGN.md 5/C11", technique="TLC model checking of Refs.tla (MC_Refs) + replay of TLC-generated worlds + TLC trace validation of real lookup answers"),
    "C09": dict(
        text="Targets.tla defines TargetsP(schema, document) over the abstract schema of BodyRules extended with address schemas (steps from static names, labels, attribute "
             "values; as reference / as type of an attribute / body as data / dependent body as data / TargetableAs / any-attribute / count and for_each), reusing Effective(). MC_Targets "
             "enumerates documents over a pool of declarations x schema variants, checks sanity invariants and prints the cases; TraceTargets compares the real CollectReferenceTargets with "
             "TargetsP as exact sets of (address, local address, scope, type, extent, header) and evaluates the structural predicates on nested targets (one step, index = source order, key = "
             "written key, inside the parent) on these and on the target trees of five curated worlds.",
        ref="DESIGN.md 5/C09", technique="TLC model checking of Targets.tla (MC_Targets) + replay of TLC-generated cases + TLC trace validation (TraceTargets)"),
    "C19": dict(
        text="Targets / origins / outline operators of the specification take no syntax argument: every (schema, document) case of MC_Targets that is expressible in both syntaxes is "
             "rendered natively and as JSON, both are loaded into the real decoder, and TraceSyntax requires the absolute targets (address, scope, type, nesting), the origin addresses "
             "and the block / attribute outline of the two observations to be equal as bags and to equal TargetsP and the item tree of the abstract document.",
        ref="DESIGN.md 5/C19", technique="TLC-generated cases (MC_Targets) replayed in two concrete syntaxes + TLC trace validation against Targets.tla / the document tree (TraceSyntax)"),
    "C08": dict(
        text="ValComp.tla defines which declarations are visible from a cursor (block-local names only inside their block and only where enabled, never the attribute being edited), "
             "RefCandOK (address of a visible declaration, typed prefix, fits by itself or through a nested declaration), FnCandOK and the admitted keyword / boolean sets; MC_ValComp "
             "enumerates (constraint, typed text, placement), checks visibility invariants and prints the cases; TraceValComp judges every real candidate, and every accepted fitting "
             "reference candidate must resolve through go-to-definition.",
        ref="DESIGN.md 5/C08", technique="TLC model checking of ValComp.tla (MC_ValComp) + replay of TLC-generated cases + TLC trace validation of real candidates (TraceValComp)"),
}

NOT_YET = {
}

ALL = ["C%02d" % i for i in range(1, 21)]


def main():
    checks = []
    for pid in ALL:
        if pid not in CHECKS:
            continue
        c = CHECKS[pid]
        checks.append({
            "property_id": pid,
            "quick_cmd": "python3 bin/check.py %s --tier quick" % pid,
            "thorough_cmd": "python3 bin/check.py %s --tier thorough" % pid,
            "evidence_file": "/verif/evidence/%s.json" % pid,
            "replay_cmd_template": "python3 bin/check.py %s --replay {path}" % pid,
            "engine": "tlc+hx",
            "level_claimed": {"category": "model_checking", "text": c["text"], "design_ref": c["ref"]},
            "level_note": c.get("note", COMMON_NOTE),
            "technique": c["technique"],
        })
    na = [{"property_id": p, "reason": NOT_YET.get(p, "check not built yet in this round (work in progress; see DESIGN.md 9 build-out order)")}
          for p in ALL if p not in CHECKS]
    commits = subprocess.run(["git", "-C", "/repo", "log", "--format=%h %s", "--grep=^verif:", "0455eec..HEAD"], capture_output=True, text=True).stdout.strip().splitlines()
    m = {
        "version": 1,
        "setup_cmd": "python3 bin/setup.py",
        "hooks": {
            "guard": "verif",
            "enable": "go build -tags verif (the harness module in /verif/harness replaces github.com/hashicorp/hcl-lang with /repo)",
            "baseline_off_cmd": "cd /repo && GOFLAGS=-mod=mod GOPROXY=off GOSUMDB=off GOTOOLCHAIN=local go test -vet=off -count=1 ./...",
            "source_commits": [c.split()[0] for c in commits],
            "add_only": True,
        },
        "engines": [
            {"name": "tlc", "path": "/verif/spec", "serves_properties": [c["property_id"] for c in checks],
             "kind_free_text": "explicit TLA+ specification (Text, Session, TraceSession, ...) checked with TLC: exhaustive MC configs and trace validation"},
            {"name": "hx", "path": "/verif/harness", "serves_properties": [c["property_id"] for c in checks],
             "kind_free_text": "Go conformance harness: drives the real library (replay of TLC-generated cases, recording of NDJSON traces)"},
            {"name": "check.py", "path": "/verif/bin/check.py", "serves_properties": [c["property_id"] for c in checks],
             "kind_free_text": "orchestrator: build, TLC, harness, trace validation, known findings, evidence"},
        ],
        "checks": checks,
        "not_applicable": na,
        "notes": "Known findings: /verif/known_findings.json. Seeded changes: /verif/seeded/. Design: /verif/DESIGN.md.",
    }
    json.dump(m, open(os.path.join(ROOT, "MANIFEST.json"), "w"), indent=1)
    print("MANIFEST.json: %d checks, %d not claimed" % (len(checks), len(na)))


if __name__ == "__main__":
    main()
