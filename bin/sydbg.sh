#!/bin/bash
set -e
cd /verif/harness && GOFLAGS=-mod=mod GOPROXY=off GOSUMDB=off GOTOOLCHAIN=local go build -tags verif -o /verif/.work/bin/hx .
mkdir -p /verif/.work/tg && cd /verif/.work/tg && cp ../../spec/*.tla ../../spec/*.cfg . && export JAVA_TOOL_OPTIONS=-Xss512m
timeout 900 tlc -noGenerateSpecTE -workers 8 -metadir $PWD/meta -config MC_Targets_quick.cfg MC_Targets.tla > out.txt 2>&1 || true
grep -E "rror|violated|line [0-9]+, col" out.txt | head -8 || true
python3 - <<'PY'
import json
seen=set();out=open('/verif/.work/tg/cases.ndjson','w')
for l in open('/verif/.work/tg/out.txt'):
    if l.startswith('"{'):
        s=json.loads(l); k=json.dumps(json.loads(s),sort_keys=True)
        if k not in seen:
            seen.add(k); out.write(s+"\n")
print(len(seen),"cases")
PY
rm -f sy.*.ndjson
../bin/hx syntax -cases cases.ndjson -out sy -shards 2
for f in sy.000 sy.001; do TRACE=$PWD/$f.ndjson VOUT=$PWD/v-$f.json timeout 600 tlc -noGenerateSpecTE -workers 1 -metadir $PWD/mt-$f -config TraceSyntax.cfg TraceSyntax.tla 2>&1 | grep -E "rror|line [0-9]+, col" | head -8 || true; done
python3 - <<'PY'
import json,collections
c=collections.Counter()
for f in ('sy.000','sy.001'):
    v=json.load(open('/verif/.work/tg/v-%s.json'%f)); print(f,v['consumed'], len(v['bad']))
    for b in v['bad']: c[b['what']]+=1
for k,v in c.most_common(): print(v,k)
PY
