#!/bin/bash
set -e
cd /verif/harness && GOFLAGS=-mod=mod GOPROXY=off GOSUMDB=off GOTOOLCHAIN=local go build -tags verif -o /verif/.work/bin/hx .
mkdir -p /verif/.work/mcb && cd /verif/.work/mcb && cp ../../spec/*.tla ../../spec/*.cfg . && export JAVA_TOOL_OPTIONS=-Xss512m
timeout 900 tlc -noGenerateSpecTE -workers 8 -metadir $PWD/meta-d -config MC_Body_${1:-dep}.cfg MC_Body.tla > out-d.txt 2>&1 || true
grep -E "rror|violated|line [0-9]+, col" out-d.txt | head -8 || true
python3 - <<'PY'
import json
seen=set();out=open('/verif/.work/mcb/cases-d.ndjson','w')
for l in open('/verif/.work/mcb/out-d.txt'):
    if l.startswith('"{'):
        s=json.loads(l); k=json.dumps(json.loads(s),sort_keys=True)
        if k not in seen:
            seen.add(k); out.write(s+"\n")
print(len(seen),"cases")
PY
../bin/hx body -cases cases-d.ndjson -out bd -layouts 2 -shards 2 >/dev/null
for i in 0 1; do TRACE=$PWD/bd.00$i.ndjson VOUT=$PWD/vd$i.json timeout 600 tlc -noGenerateSpecTE -workers 1 -metadir $PWD/mtd$i -config TraceBody.cfg TraceBody.tla 2>&1 | grep -E "rror|line [0-9]+, col" | head -8 || true; done
python3 - <<'PY'
import json,collections
c=collections.Counter()
for i in (0,1):
    v=json.load(open('/verif/.work/mcb/vd%d.json'%i)); print(v['consumed'], len(v['bad']))
    for b in v['bad']: c[(b['prop'],b['what'])]+=1
for k,v in c.most_common(): print(v,k)
PY
