#!/usr/bin/env python3
"""Run every seeded change against the check of the property it breaks (quick tier); print a table.
Also the reversed fix: commits (fixes/*.patch) against the properties they were recorded for.  Writes seeded/RESULTS.json next to this checkout."""
import os, json, subprocess, glob, re, sys
ROOT = os.path.dirname(os.path.dirname(os.path.abspath(__file__)))
res = []
# fixes that were corrected by a later fix on the same lines: the later one is reversed first
SUPERSEDED = {"3a6cdc6": ["e7d7ff7"], "90893cc": ["0f81d1f"]}
def run(patch, props, rev=False):
    first = []
    for later in SUPERSEDED.get(os.path.basename(patch).split(".")[0], []) if rev else []:
        first += ["--first", os.path.join(ROOT, "fixes", later + ".patch")]
    out = subprocess.run(["python3", os.path.join(ROOT, "bin", "seedtest.py")] + (["-R"] if rev else []) + first + [patch] + props, capture_output=True, text=True).stdout
    r = {}
    for m in re.finditer(r"== (\S+?)(?: \(reversed\))? (C\d+) -> exit (\d)", out):
        r[m.group(2)] = int(m.group(3))
    return r, out
only = [a for a in sys.argv[1:] if not a.startswith("--part=")]
# --part=i/n: every n-th job (seeds and reversed fixes counted together), so that several runs can share the work
part = next((a[7:] for a in sys.argv[1:] if a.startswith("--part=")), "0/1")
PI, PN = (int(x) for x in part.split("/"))
job = [0]
def mine():
    job[0] += 1
    return (job[0] - 1) % PN == PI
for d in sorted(glob.glob(os.path.join(ROOT, "seeded", "C*-m*"))):
    name = os.path.basename(d)
    if only and name not in only:
        continue
    if not mine():
        continue
    meta = json.load(open(os.path.join(d, "meta.json")))
    r, out = run(os.path.join(d, "patch.diff"), [meta["property"]])
    first = [l.strip() for l in out.splitlines() if l.strip().startswith("VIOLATION")][:1]
    res.append({"seed": name, "property": meta["property"], "exit": r.get(meta["property"]), "first": first})
    print(name, meta["property"], r, first[:1], flush=True)
    json.dump(res, open(os.path.join(ROOT, "seeded", "RESULTS.json"), "w"), indent=1)
known = json.load(open(os.path.join(ROOT, "known_findings.json")))["findings"]
fixed = {}
for k in known:
    if k.get("status") == "fixed":
        fixed.setdefault(k["commit"], []).append(k["property"])
if not only:
    for c, props in sorted(fixed.items()):
        p = os.path.join(ROOT, "fixes", c + ".patch")
        if not os.path.exists(p) or not mine():
            continue
        r, out = run(p, sorted(set(props)), rev=True)
        res.append({"seed": "revert-" + c, "property": ",".join(sorted(set(props))), "exit": r, "first": [l.strip() for l in out.splitlines() if l.strip().startswith("VIOLATION")][:1]})
        print("revert", c, r, flush=True)
        json.dump(res, open(os.path.join(ROOT, "seeded", "RESULTS.json"), "w"), indent=1)
json.dump(res, open(os.path.join(ROOT, "seeded", "RESULTS.json"), "w"), indent=1)
