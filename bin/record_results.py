#!/usr/bin/env python3
"""Merge the RESULTS.json of one or more seedall runs (e.g. /root/.vp/runs/6/verif/seeded/RESULTS.json) into seeded/RESULTS.json and
the meta.json files (detected_by = checks whose quick tier reported the change)."""
import json, os, sys
ROOT = os.path.dirname(os.path.dirname(os.path.abspath(__file__)))
path = os.path.join(ROOT, "seeded", "RESULTS.json")
cur = {r["seed"]: r for r in (json.load(open(path)) if os.path.exists(path) else [])}
for f in sys.argv[1:]:
    for r in json.load(open(f)):
        r["first"] = [x.split("replay=")[0].strip() + " " + x.split("#", 1)[-1].strip() if "#" in x else x for x in r.get("first", [])]
        cur[r["seed"]] = r
json.dump([cur[k] for k in sorted(cur)], open(path, "w"), indent=1)
for name, r in cur.items():
    mp = os.path.join(ROOT, "seeded", name, "meta.json")
    if os.path.exists(mp):
        m = json.load(open(mp))
        m["detected_by"] = [r["property"] + " quick"] if r.get("exit") == 1 else []
        json.dump(m, open(mp, "w"), indent=1)
n = sum(1 for r in cur.values() if not r["seed"].startswith("revert-"))
d = sum(1 for r in cur.values() if not r["seed"].startswith("revert-") and r.get("exit") == 1)
print("seeds %d detected %d; reverted fixes %d" % (n, d, len(cur) - n))
