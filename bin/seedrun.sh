#!/bin/bash
# usage: seedrun.sh name:prop[,prop] ...   (runs from the directory that contains bin/)
for s in "$@"; do
  n=${s%%:*}; ps=${s##*:}
  python3 bin/seedtest.py seeded/$n/patch.diff ${ps//,/ }
done
