package main

// Session driver (direction B): steps the real library through buffer
// histories and logs one NDJSON event per specification action.
//
//   Load     a buffer state (text model = lines of cluster widths)
//   Collect  targets/origins re-collected and stored in the path context
//   Q        all queries of one kind on that state (aggregated observation)
//   Reset    next concatenated trace

import (
	"bufio"
	"encoding/json"
	"fmt"
	"math/rand"
	"os"
	"regexp"
	"sort"
	"strconv"
	"strings"
	"sync"

	"github.com/hashicorp/hcl-lang/decoder"
	"github.com/hashicorp/hcl-lang/lang"
	"github.com/hashicorp/hcl/v2"
)

type Event map[string]interface{}

type traceWriter struct {
	f *os.File
	w *bufio.Writer
	n int
}

func newTraceWriter(path string) *traceWriter {
	f, err := os.Create(path)
	if err != nil {
		fatal("create trace: %v", err)
	}
	return &traceWriter{f: f, w: bufio.NewWriterSize(f, 1<<20)}
}

func (t *traceWriter) Emit(ev Event) {
	b, err := json.Marshal(ev)
	if err != nil {
		fatal("marshal: %v", err)
	}
	t.w.Write(b)
	t.w.WriteByte('\n')
	t.n++
}

func (t *traceWriter) Close() { t.w.Flush(); t.f.Close() }

func fatal(f string, a ...interface{}) {
	fmt.Fprintf(os.Stderr, "hx: "+f+"\n", a...)
	os.Exit(2)
}

// ---------------------------------------------------------------- aggregation

type rkey struct {
	p, f                   string
	sb, sl, sc, eb, el, ec int
}

func rk(p string, r hcl.Range) rkey {
	return rkey{p, r.Filename, r.Start.Byte, r.Start.Line, r.Start.Column, r.End.Byte, r.End.Line, r.End.Column}
}

type Agg struct {
	Kind     string
	N        int
	Hist     map[string]int
	Panics   map[string]Event // site|class -> first example
	Ranges   map[rkey]string  // -> tag of first occurrence
	Edits    map[[3]int]bool  // (startByte, endByte, cursorByte)
	EditF    map[string]bool  // filenames of edit ranges
	Hovers   map[[3]int]bool
	HovBad   int // ok hover with empty content
	Stops    map[string][]int
	PlainBad int
	MaxLen   int
	// completeness bookkeeping
	Example map[string]string
}

func newAgg(kind string) *Agg {
	return &Agg{Kind: kind, Hist: map[string]int{}, Panics: map[string]Event{}, Ranges: map[rkey]string{},
		Edits: map[[3]int]bool{}, EditF: map[string]bool{}, Hovers: map[[3]int]bool{}, Stops: map[string][]int{}, Example: map[string]string{}}
}

var reStop = regexp.MustCompile(`\$\{(\d+)|\$(\d+)`)

func stopsOf(snippet string) []int {
	out := []int{}
	s := strings.ReplaceAll(snippet, `\$`, "")
	for _, m := range reStop.FindAllStringSubmatch(s, -1) {
		d := m[1]
		if d == "" {
			d = m[2]
		}
		n, _ := strconv.Atoi(d)
		out = append(out, n)
	}
	return out
}

func (a *Agg) Add(q Q, o Outcome) {
	a.N++
	a.Hist[o.Status]++
	if o.Status == "panic" {
		k := o.Site + "|" + o.Class
		if _, ok := a.Panics[k]; !ok {
			a.Panics[k] = Event{"site": o.Site, "class": o.Class, "at": q.Pos.Byte, "msg": o.Err}
		}
		return
	}
	_, ranges := observe(o)
	for _, r := range ranges {
		if r.IsPos || r.R.Filename == sentinelRange.Filename {
			// positions are checked as parts of ranges; the sentinel is a range the schema itself supplied
			continue
		}
		rp := r.Path
		if rp == "" {
			rp = q.Path
		}
		k := rk(rp, r.R)
		if _, ok := a.Ranges[k]; !ok {
			a.Ranges[k] = r.Tag
		}
	}
	switch v := o.Value.(type) {
	case lang.Candidates:
		if len(v.List) > a.MaxLen {
			a.MaxLen = len(v.List)
		}
		for _, c := range v.List {
			te := c.TextEdit
			a.Edits[[3]int{te.Range.Start.Byte, te.Range.End.Byte, q.Pos.Byte}] = true
			a.EditF[te.Range.Filename] = true
			if len(stopsOf(te.NewText)) > 0 {
				a.PlainBad++
				a.Example["plainbad"] = te.NewText
			}
			st := stopsOf(te.Snippet)
			a.Stops[fmt.Sprint(st)] = st
		}
	case *lang.HoverData:
		if v != nil && o.Status == "ok" {
			a.Hovers[[3]int{v.Range.Start.Byte, v.Range.End.Byte, q.Pos.Byte}] = true
			if v.Content.Value == "" {
				a.HovBad++
			}
		}
	}
}

func (a *Agg) Event(path, file string) Event {
	ev := Event{"ev": "Q", "k": a.Kind, "p": path, "f": file, "n": a.N, "hist": a.Hist}
	ps := []Event{}
	for _, p := range a.Panics {
		ps = append(ps, p)
	}
	sort.Slice(ps, func(i, j int) bool {
		return fmt.Sprint(ps[i]["site"], ps[i]["class"]) < fmt.Sprint(ps[j]["site"], ps[j]["class"])
	})
	ev["panics"] = ps
	rs := make([][]interface{}, 0, len(a.Ranges))
	for k, tag := range a.Ranges {
		rs = append(rs, []interface{}{k.f, k.sb, k.sl, k.sc, k.eb, k.el, k.ec, tag, k.p})
	}
	sort.Slice(rs, func(i, j int) bool { return fmt.Sprint(rs[i]...) < fmt.Sprint(rs[j]...) })
	ev["rs"] = rs
	if a.Kind == "completion" {
		ed := make([][3]int, 0, len(a.Edits))
		for k := range a.Edits {
			ed = append(ed, k)
		}
		sort.Slice(ed, func(i, j int) bool { return fmt.Sprint(ed[i]) < fmt.Sprint(ed[j]) })
		ev["ed"] = ed
		fs := []string{}
		for f := range a.EditF {
			fs = append(fs, f)
		}
		sort.Strings(fs)
		ev["edf"] = fs
		st := make([][]int, 0, len(a.Stops))
		for _, s := range a.Stops {
			st = append(st, s)
		}
		sort.Slice(st, func(i, j int) bool { return fmt.Sprint(st[i]) < fmt.Sprint(st[j]) })
		ev["st"] = st
		ev["plainbad"] = a.PlainBad
		ev["maxlen"] = a.MaxLen
	}
	if a.Kind == "hover" {
		hv := make([][3]int, 0, len(a.Hovers))
		for k := range a.Hovers {
			hv = append(hv, k)
		}
		sort.Slice(hv, func(i, j int) bool { return fmt.Sprint(hv[i]) < fmt.Sprint(hv[j]) })
		ev["hv"] = hv
		ev["hovbad"] = a.HovBad
	}
	return ev
}

// ---------------------------------------------------------------- fingerprint

var fpOpts = canonOpts{
	InlineRanges: true,
	SkipFields:   map[string]bool{"File.Nav": true},
}

func (e *Env) Fingerprint() string {
	var sb strings.Builder
	for _, p := range e.R.Order {
		s, _ := canonValue(e.R.Ctxs[p], fpOpts)
		sb.WriteString(p + "=" + digest(s) + ";")
	}
	return digest(sb.String())
}

// ---------------------------------------------------------------- one buffer state

type StateSpec struct {
	World   *World
	File    string
	Src     []byte
	Offsets []int // byte offsets to query (cluster boundaries); nil = all
	Note    string
}

func isPositional(k string) bool {
	for _, p := range positional {
		if p == k {
			return true
		}
	}
	return false
}

type sessOpts struct {
	Stale     bool // also query between Load and Collect (stale targets / origins)
	FpEvery   int  // fingerprint after every Q event of every n-th state (0 = never)
	Prefill   bool
	AllKinds  bool
	TokensObs bool // log token sequences and symbol trees (shape parts of C13/C14)
}

func tokensEvent(ev Event, o Outcome, src []byte) {
	toks, ok := o.Value.([]lang.SemanticToken)
	if !ok {
		return
	}
	tk := make([][]interface{}, 0, len(toks))
	for _, t := range toks {
		c := ""
		if t.Range.End.Byte <= t.Range.Start.Byte && t.Range.Start.Byte >= 0 && t.Range.Start.Byte <= len(src) {
			// context of an empty token: the two bytes that follow it
			e := t.Range.Start.Byte + 2
			if e > len(src) {
				e = len(src)
			}
			c = string(src[t.Range.Start.Byte:e])
		}
		tk = append(tk, []interface{}{string(t.Type), t.Range.Start.Byte, t.Range.End.Byte, c})
	}
	ev["tk"] = tk
}

func flattenSyms(syms []decoder.Symbol, parent int, out *[][]int) {
	for _, s := range syms {
		r := s.Range()
		*out = append(*out, []int{parent, r.Start.Byte, r.End.Byte})
		idx := len(*out)
		flattenSyms(s.NestedSymbols(), idx, out)
	}
}

func symbolsEvent(ev Event, o Outcome) {
	syms, ok := o.Value.([]decoder.Symbol)
	if !ok {
		return
	}
	flat := [][]int{}
	flattenSyms(syms, 0, &flat)
	ev["sy"] = flat
}

// runState emits Load, Collect and the Q events of one buffer state.
func runState(tw *traceWriter, w *watch, env *Env, path string, st StateSpec, so sessOpts, stateIdx int) {
	parsed := env.SetFile(path, st.File, st.Src)
	tw.Emit(Event{"ev": "Load", "p": path, "f": st.File, "lines": Lines(st.Src), "parsed": parsed, "len": len(st.Src), "note": st.Note})
	if !parsed {
		return
	}
	bounds := Boundaries(st.Src)
	if so.Stale {
		// queries between the edit and the re-collection: the context still holds the targets / origins of the previous buffer
		offs := st.Offsets
		if offs == nil {
			for i, b := range bounds {
				if i%3 == 0 {
					offs = append(offs, b.Byte)
				}
			}
		}
		byOff := map[int]hcl.Pos{}
		for _, b := range bounds {
			byOff[b.Byte] = b
		}
		kinds := append(append([]string{}, positional...), "tokens", "symbols", "links", "validatefile", "validate", "wsymbols")
		for _, kind := range kinds {
			a := newAgg(kind)
			if isPositional(kind) {
				for _, o := range offs {
					if p, ok := byOff[o]; ok {
						q := Q{Kind: kind, Path: path, File: st.File, Pos: p}
						a.Add(q, env.Run(w, q))
					}
				}
			} else {
				q := Q{Kind: kind, Path: path, File: st.File}
				a.Add(q, env.Run(w, q))
			}
			ev := a.Event(path, st.File)
			tw.Emit(Event{"ev": "QS", "k": kind, "p": path, "f": st.File, "hist": ev["hist"], "panics": ev["panics"], "n": ev["n"], "fp": ""})
		}
	}
	tOut, oOut := env.Recollect(w, path)
	cev := Event{"ev": "Collect", "p": path, "t": tOut.Status, "o": oOut.Status, "panics": []Event{}}
	ps := []Event{}
	for _, o := range []Outcome{tOut, oOut} {
		if o.Status == "panic" {
			ps = append(ps, Event{"site": o.Site, "class": o.Class, "at": -1, "msg": o.Err})
		}
	}
	cev["panics"] = ps
	doFp := so.FpEvery > 0 && stateIdx%so.FpEvery == 0
	cev["fp"] = ""
	if doFp {
		cev["fp"] = env.Fingerprint()
	}
	tw.Emit(cev)

	var poss []hcl.Pos
	if st.Offsets == nil {
		poss = bounds
	} else {
		byOff := map[int]hcl.Pos{}
		for _, b := range bounds {
			byOff[b.Byte] = b
		}
		for _, o := range st.Offsets {
			if p, ok := byOff[o]; ok {
				poss = append(poss, p)
			}
		}
	}
	for _, kind := range positional {
		a := newAgg(kind)
		for _, p := range poss {
			q := Q{Kind: kind, Path: path, File: st.File, Pos: p, Prefill: so.Prefill}
			a.Add(q, env.Run(w, q))
			if kind == "completion" && so.Prefill {
				q.Prefill = false
				a.Add(q, env.Run(w, q))
			}
		}
		ev := a.Event(path, st.File)
		ev["fp"] = ""
		if doFp {
			ev["fp"] = env.Fingerprint()
		}
		tw.Emit(ev)
	}
	kinds := append([]string{}, fileLevel...)
	kinds = append(kinds, pathLevel...)
	for _, kind := range kinds {
		a := newAgg(kind)
		q := Q{Kind: kind, Path: path, File: st.File}
		o := env.Run(w, q)
		a.Add(q, o)
		ev := a.Event(path, st.File)
		if so.TokensObs {
			if kind == "tokens" {
				tokensEvent(ev, o, st.Src)
			}
			if kind == "symbols" {
				symbolsEvent(ev, o)
			}
		}
		ev["fp"] = ""
		if doFp {
			ev["fp"] = env.Fingerprint()
		}
		tw.Emit(ev)
	}
}

// ---------------------------------------------------------------- histories

// prefixStates: the buffer after each token of the document has been typed.
func prefixStates(w *World, file string, stride int, tail int) []StateSpec {
	src := []byte(w.Docs[file])
	cuts := TokenCuts(src)
	out := []StateSpec{}
	for i, c := range cuts {
		if stride > 1 && i%stride != 0 && i != len(cuts)-1 {
			continue
		}
		st := StateSpec{World: w, File: file, Src: append([]byte{}, src[:c]...), Note: fmt.Sprintf("prefix:%d", c)}
		if tail > 0 {
			st.Offsets = tailOffsets(st.Src, tail)
		}
		out = append(out, st)
	}
	return out
}

func tailOffsets(src []byte, tail int) []int {
	bs := Boundaries(src)
	out := []int{}
	for _, b := range bs {
		if b.Byte >= len(src)-tail {
			out = append(out, b.Byte)
		}
	}
	return out
}

func aroundOffsets(src []byte, at, radius int) []int {
	bs := Boundaries(src)
	out := []int{}
	for _, b := range bs {
		if b.Byte >= at-radius && b.Byte <= at+radius {
			out = append(out, b.Byte)
		}
	}
	return out
}

var onlyNote string

// editStates: single-token edits of the full document (delete / replace / insert).
func editStates(w *World, file string, rng *rand.Rand, sample float64, radius int) []StateSpec {
	src := []byte(w.Docs[file])
	toks := LexToks(src)
	out := []StateSpec{}
	add := func(ns []byte, at int, note string) {
		if onlyNote != "" && note != onlyNote {
			return
		}
		out = append(out, StateSpec{World: w, File: file, Src: ns, Offsets: aroundOffsets(ns, at, radius), Note: note})
	}
	if onlyNote != "" {
		// replay: enumerate every edit, keep the named one
		for i, t := range toks {
			add(append(append([]byte{}, src[:t.S]...), src[t.E:]...), t.S, fmt.Sprintf("del:%d", i))
			for _, rep := range *activeAlphabet {
				if fmt.Sprintf("rep:%d:%q", i, rep) == onlyNote {
					add(append(append(append([]byte{}, src[:t.S]...), rep...), src[t.E:]...), t.S+len(rep), onlyNote)
				}
				if fmt.Sprintf("ins:%d:%q", i, rep) == onlyNote {
					add(append(append(append([]byte{}, src[:t.S]...), rep...), src[t.S:]...), t.S+len(rep), onlyNote)
				}
			}
		}
		return out
	}
	for i, t := range toks {
		if rng.Float64() < sample {
			ns := append(append([]byte{}, src[:t.S]...), src[t.E:]...)
			add(ns, t.S, fmt.Sprintf("del:%d", i))
		}
		for _, rep := range *activeAlphabet {
			if rng.Float64() < sample/4 {
				ns := append(append(append([]byte{}, src[:t.S]...), rep...), src[t.E:]...)
				add(ns, t.S+len(rep), fmt.Sprintf("rep:%d:%q", i, rep))
			}
			if rng.Float64() < sample/4 {
				ns := append(append(append([]byte{}, src[:t.S]...), rep...), src[t.S:]...)
				add(ns, t.S+len(rep), fmt.Sprintf("ins:%d:%q", i, rep))
			}
		}
	}
	return out
}

// ---------------------------------------------------------------- command

func runShards(states []StateSpec, shards int, outPrefix string, so sessOpts) []string {
	if shards > len(states) {
		shards = len(states)
	}
	if shards < 1 {
		shards = 1
	}
	files := make([]string, shards)
	var wg sync.WaitGroup
	ws := make([]*watch, shards)
	for i := range ws {
		ws[i] = newWatch()
	}
	for s := 0; s < shards; s++ {
		files[s] = fmt.Sprintf("%s.%03d.ndjson", outPrefix, s)
		wg.Add(1)
		go func(s int) {
			defer wg.Done()
			tw := newTraceWriter(files[s])
			defer tw.Close()
			var env *Env
			var cur *World
			// every shard builds the worlds for itself: a schema is caller-owned data that the library must not write, and a
			// write into a schema shared by the shards would crash the driver (concurrent map access) instead of showing in
			// the fingerprint of the context
			own := map[*World]*World{}
			for i := s; i < len(states); i += shards {
				st := states[i]
				if env == nil || cur != st.World {
					if env != nil {
						tw.Emit(Event{"ev": "Reset"})
					}
					if own[st.World] == nil {
						own[st.World] = st.World
						if nw := worldByName(st.World.Name); nw != nil {
							own[st.World] = nw
						}
					}
					env = newEnv(own[st.World], "p1")
					for _, pk := range sortedPeerKeys(st.World) {
						if !env.R.Failing[pk] {
							env.Recollect(ws[s], pk)
						}
					}
					cur = st.World
					emitInit(tw, st.World)
				}
				runState(tw, ws[s], env, "p1", st, so, i)
			}
		}(s)
	}
	wg.Wait()
	return files
}

// emitInit: the Init event and one Load per file of every path of the world
func emitInit(tw *traceWriter, w *World) {
	tw.Emit(Event{"ev": "Init", "p": "p1", "world": w.Name, "files": sortedKeys(w.Docs)})
	load := func(pk string, pw *World) {
		for _, f := range sortedKeys(pw.Docs) {
			tw.Emit(Event{"ev": "Load", "p": pk, "f": f, "lines": Lines([]byte(pw.Docs[f])), "parsed": true, "len": len(pw.Docs[f]), "note": "init"})
		}
	}
	load("p1", w)
	for _, pk := range sortedPeerKeys(w) {
		load(pk, w.Peers[pk])
	}
}

func sortedKeys(m map[string]string) []string {
	ks := make([]string, 0, len(m))
	for k := range m {
		ks = append(ks, k)
	}
	sort.Strings(ks)
	return ks
}

// ---------------------------------------------------------------- histories generated by TLC (Typing.tla)

type histOp struct {
	Op string `json:"op"`
	I  int    `json:"i"`
	A  int    `json:"a"`
}

// histStates: every behaviour of Typing.tla is applied to the token sequence of every native document of the world;
// abstract token indices are scaled to the real token count, alphabet indices pick from tokenAlphabet.
func histStates(w *World, path string, ntok, radius int, rng *rand.Rand) []StateSpec {
	f, err := os.Open(path)
	if err != nil {
		fatal("open histories: %v", err)
	}
	defer f.Close()
	var hists [][]histOp
	sc := bufio.NewScanner(f)
	sc.Buffer(make([]byte, 1<<20), 1<<24)
	for sc.Scan() {
		var h struct {
			Hist Seq[histOp] `json:"hist"`
		}
		if err := json.Unmarshal(sc.Bytes(), &h); err != nil {
			fatal("bad history: %v", err)
		}
		hists = append(hists, h.Hist)
	}
	out := []StateSpec{}
	for _, file := range sortedKeys(w.Docs) {
		src := []byte(w.Docs[file])
		toks := LexToks(src)
		if len(toks) == 0 {
			continue
		}
		base := tokenTexts(src)
		for _, h := range hists {
			shift := rng.Intn(len(tokenAlphabet))
			for si := range h {
				ns, at, ok := applyHist(base, h[:si+1], shift, ntok)
				if !ok {
					break
				}
				ops, _ := json.Marshal(h[:si+1])
				out = append(out, StateSpec{World: w, File: file, Src: ns, Offsets: aroundOffsets(ns, at, radius),
					Note: fmt.Sprintf("hist:%d:%s", shift, ops)})
			}
		}
	}
	return out
}

// applyHist applies the edits of one behaviour of Typing.tla to the token texts of a document; returns the buffer and
// the byte offset of the last edit.
func applyHist(base []string, h []histOp, shift, ntok int) ([]byte, int, bool) {
	cur := append([]string{}, base...)
	i := 0
	for _, op := range h {
		if len(cur) == 0 {
			return nil, 0, false
		}
		// scale the abstract index to the current buffer
		i = (op.I - 1) * len(cur) / ntok
		if i >= len(cur) {
			i = len(cur) - 1
		}
		alpha := tokenAlphabet[(op.A*4+shift)%len(tokenAlphabet)]
		switch op.Op {
		case "del":
			cur = append(cur[:i:i], cur[i+1:]...)
		case "ins":
			cur = append(cur[:i:i], append([]string{alpha + " "}, cur[i:]...)...)
		case "rep":
			cur[i] = alpha + " "
		case "cut":
			cur = cur[:i+1]
		case "dup":
			cur = append(cur[:i:i], append([]string{cur[i]}, cur[i:]...)...)
		}
	}
	at := 0
	for k := 0; k < i && k < len(cur); k++ {
		at += len(cur[k])
	}
	return []byte(strings.Join(cur, "")), at, true
}

func tokenTexts(src []byte) []string {
	toks := LexToks(src)
	base := make([]string, len(toks))
	for i, t := range toks {
		e := len(src)
		if i+1 < len(toks) {
			e = toks[i+1].S
		}
		base[i] = string(src[t.S:e])
	}
	return base
}

// histStateByNote rebuilds one state from its note (replay)
func histStateByNote(w *World, file, note string, ntok int) *StateSpec {
	parts := strings.SplitN(note, ":", 3)
	if len(parts) != 3 || parts[0] != "hist" {
		return nil
	}
	shift, _ := strconv.Atoi(parts[1])
	var h []histOp
	if json.Unmarshal([]byte(parts[2]), &h) != nil {
		return nil
	}
	ns, _, ok := applyHist(tokenTexts([]byte(w.Docs[file])), h, shift, ntok)
	if !ok {
		return nil
	}
	return &StateSpec{World: w, File: file, Src: ns, Note: note}
}
