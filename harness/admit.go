package main

// admit: replay of MC_Admit cases (Admit.tla). The real schema is built from the abstract one; Validate() is logged
// (TraceAdmit compares it with Accept); on every schema the package accepts, every query runs at every position of the
// named document (C01: no panic, termination).

import (
	"bufio"
	"encoding/json"
	"flag"
	"fmt"
	"math/rand"
	"os"
	"sync"
	"time"

	"github.com/hashicorp/hcl-lang/lang"
	"github.com/hashicorp/hcl-lang/schema"
	"github.com/zclconf/go-cty/cty"
)

func init() { commands["admit"] = cmdAdmit }

type MAddr struct {
	K             string      `json:"k"`
	Steps         Seq[string] `json:"steps"`
	AsExpr        bool        `json:"asExpr"`
	AsRef         bool        `json:"asRef"`
	BodyAsData    bool        `json:"bodyAsData"`
	InferBody     bool        `json:"inferBody"`
	BodySelfRef   bool        `json:"bodySelfRef"`
	DepAsData     bool        `json:"depAsData"`
	InferDep      bool        `json:"inferDep"`
	UnknownNested bool        `json:"unknownNested"`
	DepSelfRef    bool        `json:"depSelfRef"`
	AsTypeOf      string      `json:"asTypeOf"`
}

type MCons struct {
	K       string      `json:"k"`
	T       string      `json:"t"`
	Es      Seq[*MCons] `json:"es"`
	E       *MCons      `json:"e"`
	Addr    string      `json:"addr"`
	OfType  bool        `json:"ofType"`
	OfScope bool        `json:"ofScope"`
}

type MAttr struct {
	K    string `json:"k"`
	Req  bool   `json:"req"`
	Opt  bool   `json:"opt"`
	Comp bool   `json:"comp"`
	Addr *MAddr `json:"addr"`
	Oft  *MAddr `json:"oft"`
	Cons *MCons `json:"cons"`
}

type MBlock struct {
	Addr  *MAddr `json:"addr"`
	Shape string `json:"shape"`
	Body  *MBody `json:"body"`
}

type MBody struct {
	K      string       `json:"k"`
	Attrs  Map[*MAttr]  `json:"attrs"`
	Any    *MAttr       `json:"any"`
	Blocks Map[*MBlock] `json:"blocks"`
}

type AdmitCase struct {
	Schema *MBody          `json:"schema"`
	Doc    string          `json:"doc"`
	Accept bool            `json:"accept"`
	Raw    json.RawMessage `json:"-"`
}

func mSteps(steps []string) schema.Address {
	out := schema.Address{}
	labels := 0
	for i, s := range steps {
		switch s {
		case "static":
			n := "root"
			if i > 0 {
				n = fmt.Sprintf("s%d", i)
			}
			out = append(out, schema.StaticStep{Name: n})
		case "label":
			out = append(out, schema.LabelStep{Index: uint(labels)})
			labels++
		case "attrval":
			out = append(out, schema.AttrValueStep{Name: "name"})
		case "attrvalopt":
			out = append(out, schema.AttrValueStep{Name: "name", IsOptional: true})
		case "attrname":
			out = append(out, schema.AttrNameStep{})
		}
	}
	return out
}

func mCons(c *MCons) schema.Constraint {
	if c == nil {
		return nil
	}
	switch c.K {
	case "littype":
		if c.T == "nil" {
			return schema.LiteralType{Type: cty.NilType}
		}
		return schema.LiteralType{Type: cty.String}
	case "oneof":
		o := schema.OneOf{}
		for _, e := range c.Es {
			o = append(o, mCons(e))
		}
		return o
	case "ref":
		r := schema.Reference{}
		if c.OfType {
			r.OfType = cty.String
		}
		if c.OfScope {
			r.OfScopeId = "sc"
		}
		switch c.Addr {
		case "scope":
			r.Address = &schema.ReferenceAddrSchema{ScopeId: "sc"}
		case "noscope":
			r.Address = &schema.ReferenceAddrSchema{}
		}
		return r
	case "list":
		return schema.List{Elem: mCons(c.E)}
	case "any":
		return schema.AnyExpression{OfType: cty.String}
	case "kw":
		return schema.Keyword{Keyword: "kw"}
	}
	return nil
}

func mAttr(a *MAttr) *schema.AttributeSchema {
	as := &schema.AttributeSchema{IsRequired: a.Req, IsOptional: a.Opt, IsComputed: a.Comp, Constraint: mCons(a.Cons)}
	if a.Addr != nil && a.Addr.K != "nil" {
		as.Address = &schema.AttributeAddrSchema{Steps: mSteps(a.Addr.Steps), AsExprType: a.Addr.AsExpr, AsReference: a.Addr.AsRef, ScopeId: "sc", FriendlyName: "attr"}
	}
	if a.Oft != nil && a.Oft.K != "nil" {
		as.OriginForTarget = &schema.PathTarget{Address: mSteps(a.Oft.Steps), Path: lang.Path{Path: "p1", LanguageID: "x"},
			Constraints: schema.Constraints{ScopeId: "sc"}}
	}
	return as
}

func optAttr(c schema.Constraint) *schema.AttributeSchema {
	return &schema.AttributeSchema{IsOptional: true, Constraint: c}
}

func mBlock(b *MBlock) *schema.BlockSchema {
	bs := &schema.BlockSchema{}
	nested := func() map[string]*schema.BlockSchema {
		return map[string]*schema.BlockSchema{"nb": {Body: &schema.BodySchema{Attributes: map[string]*schema.AttributeSchema{
			"x": optAttr(schema.AnyExpression{OfType: cty.String})}}}}
	}
	switch b.Shape {
	case "dep1":
		bs.Labels = []*schema.LabelSchema{{Name: "type", IsDepKey: true, Completable: true}}
		bs.Body = &schema.BodySchema{
			Extensions: &schema.BodyExtensions{SelfRefs: true, Count: true},
			Attributes: map[string]*schema.AttributeSchema{"name": optAttr(schema.LiteralType{Type: cty.String}), "type": optAttr(schema.TypeDeclaration{})},
			Blocks:     nested(),
		}
		bs.DependentBody = map[schema.SchemaKey]*schema.BodySchema{
			schema.NewSchemaKey(schema.DependencyKeys{Labels: []schema.LabelDependent{{Index: 0, Value: "x"}}}): {
				Attributes: map[string]*schema.AttributeSchema{"extra": optAttr(schema.LiteralType{Type: cty.Number})},
				Blocks: map[string]*schema.BlockSchema{"nd": {Body: &schema.BodySchema{Attributes: map[string]*schema.AttributeSchema{
					"y": optAttr(schema.LiteralType{Type: cty.Number})}}}},
			},
		}
	case "bare":
	case "two":
		bs.Labels = []*schema.LabelSchema{{Name: "a"}, {Name: "b"}}
		bs.Body = &schema.BodySchema{
			Extensions: &schema.BodyExtensions{SelfRefs: true, Count: true, ForEach: true, DynamicBlocks: true},
			Attributes: map[string]*schema.AttributeSchema{"name": {IsRequired: true, Constraint: schema.LiteralType{Type: cty.String}},
				"type": optAttr(schema.TypeDeclaration{})},
			Blocks: nested(),
		}
	case "anyattr":
		bs.Body = &schema.BodySchema{AnyAttribute: &schema.AttributeSchema{IsOptional: true, Constraint: schema.AnyExpression{OfType: cty.String},
			Address: &schema.AttributeAddrSchema{Steps: schema.Address{schema.StaticStep{Name: "any"}, schema.AttrNameStep{}}, AsReference: true, ScopeId: "sc"}}}
	}
	if a := b.Addr; a != nil && a.K != "nil" {
		bs.Address = &schema.BlockAddrSchema{Steps: mSteps(a.Steps), FriendlyName: "blk", ScopeId: "blk", AsReference: a.AsRef, BodyAsData: a.BodyAsData,
			InferBody: a.InferBody, BodySelfRef: a.BodySelfRef, DependentBodyAsData: a.DepAsData, InferDependentBody: a.InferDep,
			SupportUnknownNestedRefs: a.UnknownNested, DependentBodySelfRef: a.DepSelfRef}
		if a.AsTypeOf != "" {
			bs.Address.AsTypeOf = &schema.BlockAsTypeOf{AttributeExpr: a.AsTypeOf}
		}
	}
	return bs
}

func mBody(b *MBody) *schema.BodySchema {
	bs := &schema.BodySchema{}
	if len(b.Attrs) > 0 {
		bs.Attributes = map[string]*schema.AttributeSchema{}
		for n, a := range b.Attrs {
			bs.Attributes[n] = mAttr(a)
		}
	}
	if b.Any != nil && b.Any.K != "nil" {
		bs.AnyAttribute = mAttr(b.Any)
	}
	if len(b.Blocks) > 0 {
		bs.Blocks = map[string]*schema.BlockSchema{}
		for n, bl := range b.Blocks {
			bs.Blocks[n] = mBlock(bl)
		}
	}
	return bs
}

var admitDocs = map[string]string{
	"a-str":     "a = \"x\"\nname = \"n\"\n",
	"a-ref":     "a = root.name\nname = root.a\nb = [root.b]\n",
	"a-list":    "a = [root.a, \"s\", 1]\n",
	"a-open":    "name = \"n\"\na = [\n",
	"a-obj":     "a = { k = root.a }\nb = 1\n",
	"empty":     "",
	"b-full":    "blk \"x\" {\n  name = \"n\"\n  type = string\n  extra = 1\n  nb {\n    x = self.name\n  }\n  nd {\n    y = 1\n  }\n}\nname = root.x\n",
	"b-nolabel": "blk {\n  name = \"n\"\n  foo = 1\n}\n",
	"b-two":     "blk \"x\" \"y\" {\n  name = \"n\"\n  count = 2\n  dynamic \"nb\" {\n    for_each = []\n    content {\n      x = nb.value\n    }\n  }\n}\n",
	"b-dups":    "blk \"x\" {\n  name = \"n\"\n}\nblk \"x\" {\n  name = \"n\"\n  type = list(string)\n}\n",
	"b-open":    "blk \"x\" {\n  name = ",
	"b-null":    "blk \"x\" {\n  name = true ? null : \"s\"\n  type = 1\n}\nblk \"q\" {\n  name = 1\n  nb {}\n  nb {}\n}\n",
}

func cmdAdmit(fs *flag.FlagSet) {
	casesPath := fs.String("cases", "", "cases printed by MC_Admit (NDJSON)")
	out := fs.String("out", "admit", "output prefix")
	seed := fs.Int64("seed", 1, "seed")
	fs.Parse(os.Args[2:])
	hangFile = *out + ".hang"
	startWatchdog(60 * time.Second)
	f, err := os.Open(*casesPath)
	if err != nil {
		fatal("open cases: %v", err)
	}
	defer f.Close()
	var cases []AdmitCase
	sc := bufio.NewScanner(f)
	sc.Buffer(make([]byte, 1<<20), 1<<26)
	for sc.Scan() {
		var c AdmitCase
		if err := json.Unmarshal(sc.Bytes(), &c); err != nil {
			fatal("bad case: %v", err)
		}
		c.Raw = append(json.RawMessage{}, sc.Bytes()...)
		cases = append(cases, c)
	}
	shards := 16
	if shards > len(cases) {
		shards = len(cases)
	}
	var wg sync.WaitGroup
	nq := make([]int, shards)
	nacc := make([]int, shards)
	for s := 0; s < shards; s++ {
		wg.Add(1)
		go func(s int) {
			defer wg.Done()
			wt := newWatch()
			tw := newTraceWriter(fmt.Sprintf("%s.%03d.ndjson", *out, s))
			defer tw.Close()
			rng := rand.New(rand.NewSource(*seed + int64(s)))
			for ci := s; ci < len(cases); ci += shards {
				c := cases[ci]
				var raw map[string]interface{}
				json.Unmarshal(c.Raw, &raw)
				ev := Event{"ev": "Admit", "schema": raw["schema"], "doc": c.Doc, "accept": c.Accept, "panics": []interface{}{}, "n": 0}
				var bs *schema.BodySchema
				o := guard(wt, "build+Validate", func() (interface{}, error) {
					bs = mBody(c.Schema)
					return nil, bs.Validate()
				})
				ev["valid"] = o.Status == "ok"
				ev["verr"] = o.Err
				if o.Status == "panic" {
					ev["panics"] = []interface{}{map[string]string{"site": o.Site, "msg": o.Err, "q": "Validate"}}
				}
				if o.Status == "ok" {
					nacc[s]++
					src, ok := admitDocs[c.Doc]
					if !ok {
						fatal("no document %q", c.Doc)
					}
					w := &World{Name: "admit", Schema: bs, Funcs: stdFuncs(), Docs: map[string]string{"t.tf": src}}
					env := newEnv(w, "p1")
					tO, oO := env.Recollect(wt, "p1")
					panics := []interface{}{}
					seen := map[string]bool{}
					add := func(q string, o Outcome) {
						if o.Status == "panic" && !seen[o.Site] {
							seen[o.Site] = true
							panics = append(panics, map[string]string{"site": o.Site, "msg": o.Err, "q": q})
						}
					}
					add("CollectReferenceTargets", tO)
					add("CollectReferenceOrigins", oO)
					n := 2
					for _, q := range queryKeys(w, "p1", 1, rng) {
						add(q.String(), env.Run(wt, q))
						n++
					}
					ev["panics"] = panics
					ev["n"] = n
					nq[s] += n
				}
				tw.Emit(ev)
			}
		}(s)
	}
	wg.Wait()
	tq, ta := 0, 0
	for i := range nq {
		tq += nq[i]
		ta += nacc[i]
	}
	fmt.Printf("{\"cases\":%d,\"accepted\":%d,\"queries\":%d,\"files\":%d}\n", len(cases), ta, tq, shards)
}
