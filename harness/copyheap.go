package main

// C17: Copy() on schema values. Values are populated by reflection over the real struct definitions (so a field
// added tomorrow is populated and compared too), the heap graphs of original and copy are logged, then every
// container of one side is mutated and the digest of the other side is logged. TraceCopy.tla decides Iso,
// Disjoint and the frame condition.

import (
	"flag"
	"fmt"
	"math/rand"
	"os"
	"reflect"
	"sort"
	"strings"

	"github.com/hashicorp/hcl-lang/lang"
	"github.com/hashicorp/hcl-lang/schema"
	"github.com/hashicorp/hcl/v2"
	"github.com/zclconf/go-cty/cty"
	"github.com/zclconf/go-cty/cty/function"
)

func init() { commands["copy"] = cmdCopy }

var (
	tConstraint = reflect.TypeOf((*schema.Constraint)(nil)).Elem()
	tAddrStep   = reflect.TypeOf((*schema.AddrStep)(nil)).Elem()
	tDefault    = reflect.TypeOf((*schema.Default)(nil)).Elem()
	tLangStep   = reflect.TypeOf((*lang.AddressStep)(nil)).Elem()
)

var ctyTypes = []cty.Type{cty.String, cty.Number, cty.Bool, cty.DynamicPseudoType, cty.List(cty.String), cty.Map(cty.Number),
	cty.Object(map[string]cty.Type{"a": cty.String}), cty.Tuple([]cty.Type{cty.String, cty.Bool}), cty.Set(cty.String)}
var ctyVals = []cty.Value{cty.StringVal("v"), cty.NumberIntVal(7), cty.True, cty.ListVal([]cty.Value{cty.StringVal("x")})}

type populator struct {
	rng  *rand.Rand
	full bool // every container gets entries (no nil / empty)
	n    int
}

func (p *populator) str() string {
	p.n++
	return fmt.Sprintf("s%d", p.n)
}

func (p *populator) constraint(depth int) schema.Constraint {
	k := p.rng.Intn(12)
	if depth <= 0 && k >= 6 {
		k = p.rng.Intn(6)
	}
	switch k {
	case 0:
		return schema.AnyExpression{OfType: ctyTypes[p.rng.Intn(len(ctyTypes))], SkipLiteralComplexTypes: p.rng.Intn(2) == 0}
	case 1:
		return schema.Reference{OfType: cty.String, OfScopeId: lang.ScopeId(p.str()), Name: p.str()}
	case 2:
		return schema.LiteralType{Type: ctyTypes[p.rng.Intn(len(ctyTypes))]}
	case 3:
		return schema.LiteralValue{Value: ctyVals[p.rng.Intn(len(ctyVals))], IsDeprecated: true, Description: lang.Markdown(p.str())}
	case 4:
		return schema.Keyword{Keyword: p.str(), Name: p.str(), Description: lang.PlainText(p.str())}
	case 5:
		if p.rng.Intn(2) == 0 {
			return schema.Reference{Address: &schema.ReferenceAddrSchema{ScopeId: lang.ScopeId(p.str())}, Name: p.str()}
		}
		return schema.TypeDeclaration{}
	case 6:
		return schema.List{Elem: p.constraint(depth - 1), Description: lang.Markdown(p.str()), MinItems: 1, MaxItems: 3}
	case 7:
		return schema.Set{Elem: p.constraint(depth - 1), MinItems: 1}
	case 8:
		return schema.Tuple{Elems: []schema.Constraint{p.constraint(depth - 1), p.constraint(depth - 1)}, Description: lang.Markdown(p.str())}
	case 9:
		return schema.Map{Elem: p.constraint(depth - 1), Name: p.str(), AllowInterpolatedKeys: true, MinItems: 1, MaxItems: 2}
	case 10:
		attrs := schema.ObjectAttributes{}
		for i := 0; i < 1+p.rng.Intn(2); i++ {
			attrs[p.str()] = p.value(reflect.TypeOf(&schema.AttributeSchema{}), depth-1).Interface().(*schema.AttributeSchema)
		}
		return schema.Object{Attributes: attrs, Name: p.str(), Description: lang.Markdown(p.str()), AllowInterpolatedKeys: true}
	default:
		return schema.OneOf{p.constraint(depth - 1), p.constraint(depth - 1)}
	}
}

func (p *populator) count() int {
	if p.full {
		return 1 + p.rng.Intn(2)
	}
	switch p.rng.Intn(5) {
	case 0:
		return -1 // nil
	case 1:
		return 0 // empty
	}
	return 1 + p.rng.Intn(2)
}

func (p *populator) elem(t reflect.Type, depth int) reflect.Value {
	if t.Kind() == reflect.Ptr {
		v := reflect.New(t.Elem())
		v.Elem().Set(p.value(t.Elem(), depth-1))
		return v
	}
	return p.value(t, depth)
}

func (p *populator) value(t reflect.Type, depth int) reflect.Value {
	switch t {
	case tCtyType:
		return reflect.ValueOf(ctyTypes[p.rng.Intn(len(ctyTypes))])
	case tCtyValue:
		return reflect.ValueOf(ctyVals[p.rng.Intn(len(ctyVals))])
	case tConstraint:
		v := reflect.New(t).Elem()
		v.Set(reflect.ValueOf(p.constraint(depth)))
		return v
	case tAddrStep:
		v := reflect.New(t).Elem()
		steps := []schema.AddrStep{schema.StaticStep{Name: p.str()}, schema.LabelStep{Index: uint(p.rng.Intn(2))}, schema.AttrNameStep{}, schema.AttrValueStep{Name: p.str(), IsOptional: true}}
		v.Set(reflect.ValueOf(steps[p.rng.Intn(len(steps))]))
		return v
	case tDefault:
		v := reflect.New(t).Elem()
		v.Set(reflect.ValueOf(schema.DefaultValue{Value: ctyVals[p.rng.Intn(len(ctyVals))]}))
		return v
	case tLangStep:
		v := reflect.New(t).Elem()
		steps := []lang.AddressStep{lang.RootStep{Name: p.str()}, lang.AttrStep{Name: p.str()}, lang.IndexStep{Key: cty.NumberIntVal(1)}}
		v.Set(reflect.ValueOf(steps[p.rng.Intn(len(steps))]))
		return v
	}
	switch t.Kind() {
	case reflect.Bool:
		return reflect.ValueOf(p.rng.Intn(2) == 0).Convert(t)
	case reflect.Int, reflect.Int8, reflect.Int16, reflect.Int32, reflect.Int64:
		return reflect.ValueOf(int64(1 + p.rng.Intn(5))).Convert(t)
	case reflect.Uint, reflect.Uint8, reflect.Uint16, reflect.Uint32, reflect.Uint64:
		return reflect.ValueOf(uint64(1 + p.rng.Intn(5))).Convert(t)
	case reflect.String:
		return reflect.ValueOf(p.str()).Convert(t)
	case reflect.Ptr:
		if depth <= -1 || (!p.full && p.rng.Intn(4) == 0) {
			return reflect.Zero(t)
		}
		v := reflect.New(t.Elem())
		v.Elem().Set(p.value(t.Elem(), depth-1))
		return v
	case reflect.Struct:
		v := reflect.New(t).Elem()
		for i := 0; i < t.NumField(); i++ {
			f := t.Field(i)
			if f.PkgPath != "" { // unexported
				continue
			}
			v.Field(i).Set(p.value(f.Type, depth))
		}
		return v
	case reflect.Map:
		n := p.count()
		if depth <= 0 {
			n = -1
		}
		if n < 0 {
			return reflect.Zero(t)
		}
		m := reflect.MakeMap(t)
		for i := 0; i < n; i++ {
			m.SetMapIndex(p.value(t.Key(), depth-1), p.elem(t.Elem(), depth-1))
		}
		return m
	case reflect.Slice:
		n := p.count()
		if depth <= -1 {
			n = -1
		}
		if n < 0 {
			return reflect.Zero(t)
		}
		s := reflect.MakeSlice(t, 0, n)
		for i := 0; i < n; i++ {
			s = reflect.Append(s, p.elem(t.Elem(), depth-1))
		}
		return s
	case reflect.Interface:
		return reflect.Zero(t)
	case reflect.Func:
		return reflect.Zero(t)
	}
	return reflect.Zero(t)
}

// ---- heap graph --------------------------------------------------------------------------

// isContainerType: the mutable containers C17 speaks about - pointers to schema structs, maps, slices of schema nodes.
func isNodePtr(t reflect.Type) bool {
	if t.Kind() != reflect.Ptr || t.Elem().Kind() != reflect.Struct {
		return false
	}
	pp := t.Elem().PkgPath()
	return strings.HasSuffix(pp, "hcl-lang/schema") || strings.HasSuffix(pp, "cty/function")
}

func isNodeSlice(t reflect.Type) bool {
	if t.Kind() != reflect.Slice {
		return false
	}
	e := t.Elem()
	if isNodePtr(e) {
		return true
	}
	if e.Kind() == reflect.Struct {
		pp := e.PkgPath()
		return strings.HasSuffix(pp, "hcl-lang/schema") || strings.HasSuffix(pp, "cty/function") || strings.HasSuffix(pp, "hcl-lang/lang")
	}
	// lists of modifiers / hooks have Copy methods of their own and are copied by the schema nodes that hold them
	if t == reflect.TypeOf(lang.SemanticTokenModifiers{}) || t == reflect.TypeOf(lang.CompletionHooks{}) {
		return true
	}
	return false
}

type heapNode struct {
	Kind  string
	Scal  string // digest of the scalar content
	Kids  []int  // DFS indices of child nodes
	Id    uintptr
	Val   reflect.Value
	Label string
}

type heapGraph struct {
	Nodes []*heapNode
}

func (g *heapGraph) walk(v reflect.Value, label string) int {
	// returns node index or -1 when v is not a container node (then its content was folded into the parent's scalar digest)
	t := v.Type()
	switch {
	case isNodePtr(t):
		if v.IsNil() {
			return -1
		}
		n := &heapNode{Kind: "ptr:" + t.Elem().Name(), Id: v.Pointer(), Val: v, Label: label}
		g.Nodes = append(g.Nodes, n)
		idx := len(g.Nodes) - 1
		n.Scal = g.structBody(v.Elem(), n)
		return idx
	case t.Kind() == reflect.Map:
		if v.IsNil() || v.Len() == 0 {
			return -1 // nil and empty maps are the same abstract value
		}
		n := &heapNode{Kind: "map:" + t.String(), Id: v.Pointer(), Val: v, Label: label}
		g.Nodes = append(g.Nodes, n)
		idx := len(g.Nodes) - 1
		keys := v.MapKeys()
		sort.Slice(keys, func(i, j int) bool { return fmt.Sprint(keys[i].Interface()) < fmt.Sprint(keys[j].Interface()) })
		var sb strings.Builder
		for _, k := range keys {
			sb.WriteString(fmt.Sprint(k.Interface()) + ",")
			g.child(n, addressable(v.MapIndex(k)), label+"["+fmt.Sprint(k.Interface())+"]", &sb)
		}
		n.Scal = digest(sb.String())
		return idx
	case isNodeSlice(t):
		if v.IsNil() || v.Len() == 0 {
			return -1
		}
		n := &heapNode{Kind: "slice:" + t.String(), Id: v.Pointer(), Val: v, Label: label}
		g.Nodes = append(g.Nodes, n)
		idx := len(g.Nodes) - 1
		var sb strings.Builder
		for i := 0; i < v.Len(); i++ {
			g.child(n, v.Index(i), fmt.Sprintf("%s[%d]", label, i), &sb)
		}
		n.Scal = digest(sb.String())
		return idx
	}
	return -1
}

// child: visit a value below node n; container children become Kids, everything else goes to the scalar digest
func (g *heapGraph) child(n *heapNode, v reflect.Value, label string, sb *strings.Builder) {
	t := v.Type()
	if t == tConstraint {
		// constraints are immutable values and may be shared: part of the scalar content
		s, _ := canonValue(v.Interface(), canonOpts{InlineRanges: true})
		sb.WriteString(s + ";")
		return
	}
	if isNodePtr(t) || t.Kind() == reflect.Map || isNodeSlice(t) {
		k := g.walk(v, label)
		if k >= 0 {
			n.Kids = append(n.Kids, k)
			sb.WriteString("@;")
		} else {
			sb.WriteString("nil;")
		}
		return
	}
	if t.Kind() == reflect.Struct && t != tCtyType && t != tCtyValue && t != tRange && t != tPos {
		sb.WriteString("{" + g.structBody(v, n) + "}")
		return
	}
	s, _ := canonValue(v.Interface(), canonOpts{InlineRanges: true})
	sb.WriteString(s + ";")
}

func (g *heapGraph) structBody(v reflect.Value, n *heapNode) string {
	var sb strings.Builder
	t := v.Type()
	for i := 0; i < t.NumField(); i++ {
		f := t.Field(i)
		if f.PkgPath != "" {
			continue
		}
		sb.WriteString(f.Name + "=")
		g.child(n, v.Field(i), n.Label+"."+f.Name, &sb)
	}
	return digest(sb.String())
}

func (g *heapGraph) event(side int64) Event {
	shape := make([][]interface{}, len(g.Nodes))
	ids := make([]int64, len(g.Nodes))
	for i, n := range g.Nodes {
		kids := make([]int, len(n.Kids))
		for j, k := range n.Kids {
			kids[j] = k + 1
		}
		shape[i] = []interface{}{n.Kind, n.Scal, kids}
		ids[i] = int64(uint64(n.Id) % 1000000007)
		if n.Id == 0 {
			// a value-typed root has no identity of its own
			ids[i] = -int64(i) - 1 - side
		}
	}
	return Event{"shape": shape, "ids": ids}
}

func graphOf(v reflect.Value) *heapGraph {
	g := &heapGraph{}
	if g.walk(v, "root") < 0 {
		// the root itself is not a container (a value type): wrap its content
		n := &heapNode{Kind: "value:" + v.Type().String(), Label: "root", Val: v}
		g.Nodes = append(g.Nodes, n)
		var sb strings.Builder
		g.child(n, v, "root", &sb)
		n.Scal = digest(sb.String())
	}
	return g
}

func deepDigest(v reflect.Value) string {
	g := graphOf(v)
	var sb strings.Builder
	for _, n := range g.Nodes {
		sb.WriteString(n.Kind + n.Scal + fmt.Sprint(n.Kids) + "|")
	}
	return digest(sb.String())
}

// ---- mutations ------------------------------------------------------------------------------

func newElem(t reflect.Type) reflect.Value {
	p := &populator{rng: rand.New(rand.NewSource(99)), full: true}
	return p.value(t, 1)
}

// mutate performs one mutation on node n; returns a description or "" if not applicable
func mutate(n *heapNode, which int) (desc string) {
	defer func() {
		if r := recover(); r != nil {
			desc = fmt.Sprintf("PANIC %v", r)
		}
	}()
	v := n.Val
	switch v.Kind() {
	case reflect.Map:
		keys := v.MapKeys()
		sort.Slice(keys, func(i, j int) bool { return fmt.Sprint(keys[i].Interface()) < fmt.Sprint(keys[j].Interface()) })
		switch which % 3 {
		case 0:
			v.SetMapIndex(reflect.ValueOf("zz_new").Convert(v.Type().Key()), newElem(v.Type().Elem()))
			return "map add"
		case 1:
			if len(keys) > 0 {
				v.SetMapIndex(keys[0], reflect.Value{})
				return "map delete"
			}
		case 2:
			if len(keys) > 0 {
				v.SetMapIndex(keys[0], newElem(v.Type().Elem()))
				return "map replace"
			}
		}
	case reflect.Slice:
		if v.Len() > 0 {
			v.Index(which % v.Len()).Set(newElem(v.Type().Elem()))
			return "slice replace"
		}
	case reflect.Ptr:
		e := v.Elem()
		// change the first settable scalar field
		cnt := 0
		for i := 0; i < e.NumField(); i++ {
			f := e.Field(i)
			if !f.CanSet() {
				continue
			}
			switch f.Kind() {
			case reflect.Bool:
				if cnt == which%3 {
					f.SetBool(!f.Bool())
					return "field " + e.Type().Field(i).Name
				}
				cnt++
			case reflect.String:
				if cnt == which%3 {
					f.SetString(f.String() + "~")
					return "field " + e.Type().Field(i).Name
				}
				cnt++
			case reflect.Uint64, reflect.Uint:
				if cnt == which%3 {
					f.SetUint(f.Uint() + 1)
					return "field " + e.Type().Field(i).Name
				}
				cnt++
			}
		}
	}
	return ""
}

func copyRoots() []reflect.Type {
	vals := []interface{}{
		&schema.BodySchema{}, &schema.BlockSchema{}, &schema.AttributeSchema{}, &schema.LabelSchema{}, &schema.BlockAddrSchema{},
		&schema.AttributeAddrSchema{}, &schema.Targetable{}, &schema.FunctionSignature{}, &schema.PathTarget{}, &schema.BodyExtensions{},
		&schema.DocsLink{}, &schema.Target{}, &schema.BlockAsTypeOf{}, &schema.ReferenceAddrSchema{}, schema.ImpliedOrigin{},
		schema.ObjectAttributes{}, schema.Address{}, lang.Address{}, lang.SemanticTokenModifiers{}, lang.CompletionHooks{},
		schema.AnyExpression{}, schema.Keyword{}, schema.List{}, schema.LiteralType{}, schema.LiteralValue{}, schema.Map{}, schema.Object{},
		schema.OneOf{}, schema.Reference{}, schema.Set{}, schema.Tuple{}, schema.TypeDeclaration{},
	}
	out := []reflect.Type{}
	for _, v := range vals {
		out = append(out, reflect.TypeOf(v))
	}
	return out
}

var _ = hcl.Range{}
var _ = function.Parameter{}

func callCopy(v reflect.Value) (res reflect.Value, status string) {
	defer func() {
		if r := recover(); r != nil {
			status = fmt.Sprintf("panic: %v", r)
		}
	}()
	m := v.MethodByName("Copy")
	if !m.IsValid() {
		return reflect.Value{}, "nomethod"
	}
	out := m.Call(nil)
	return out[0], "ok"
}

func cmdCopy(fs *flag.FlagSet) {
	out := fs.String("out", "copy", "output prefix")
	seed := fs.Int64("seed", 1, "seed")
	n := fs.Int("n", 40, "values per root type")
	maxMut := fs.Int("mut", 12, "mutations per side and value")
	fs.Parse(os.Args[2:])
	tw := newTraceWriter(*out + ".000.ndjson")
	defer tw.Close()
	rng := rand.New(rand.NewSource(*seed))
	cases, muts := 0, 0
	for _, rt := range copyRoots() {
		for i := 0; i < *n; i++ {
			p := &populator{rng: rng, full: i%3 == 0}
			depth := 2 + i%2
			build := func() reflect.Value {
				// the same value can be rebuilt from the same random stream
				return p.value(rt, depth)
			}
			st := rng.Int63()
			p.rng = rand.New(rand.NewSource(st))
			p.n = 0
			orig := build()
			if rt.Kind() == reflect.Interface || (orig.Kind() == reflect.Ptr && orig.IsNil()) {
				// a nil pointer is not a schema value
				continue
			}
			cp, status := callCopy(orig)
			ev := Event{"ev": "Copy", "type": rt.String(), "status": status, "case": cases}
			if status != "ok" {
				ev["orig"] = graphOf(orig).event(0)
				ev["copy"] = Event{"shape": []int{}, "ids": []int{}}
				tw.Emit(ev)
				cases++
				continue
			}
			if cp.Kind() == reflect.Interface {
				cp = cp.Elem()
			}
			cp = addressable(cp)
			go0, gc0 := graphOf(orig), graphOf(cp)
			ev["orig"] = go0.event(0)
			ev["copy"] = gc0.event(1000)
			tw.Emit(ev)
			cases++
			// mutate the copy, watch the original; then the other way round (on fresh values)
			for side := 0; side < 2; side++ {
				p.rng = rand.New(rand.NewSource(st))
				p.n = 0
				o2 := build()
				c2, _ := callCopy(o2)
				if c2.Kind() == reflect.Interface {
					c2 = c2.Elem()
				}
				c2 = addressable(c2)
				mutated, watched := c2, o2
				name := "copy"
				if side == 1 {
					mutated, watched = o2, c2
					name = "original"
				}
				base := deepDigest(watched)
				gm := graphOf(mutated)
				gw := graphOf(watched)
				done := 0
				for ni, node := range gm.Nodes {
					if done >= *maxMut {
						break
					}
					if strings.HasPrefix(node.Kind, "value:") {
						continue
					}
					// a container that exists in the watched side must exist (be usable) in the mutated side: covered by Iso
					desc := mutate(node, ni)
					if desc == "" {
						continue
					}
					after := deepDigest(watched)
					tw.Emit(Event{"ev": "Mutate", "type": rt.String(), "on": name, "node": node.Label, "what": desc, "before": base, "after": after, "case": cases - 1})
					muts++
					done++
					base = after
				}
				_ = gw
			}
			// maps that are non-nil (possibly empty) in the original must accept new entries in the copy
			p.rng = rand.New(rand.NewSource(st))
			p.n = 0
			o3 := build()
			c3, _ := callCopy(o3)
			if c3.IsValid() {
				if c3.Kind() == reflect.Interface {
					c3 = c3.Elem()
				}
				for _, d := range emptyMapProbe(addressable(o3), addressable(c3), "root") {
					tw.Emit(Event{"ev": "Mutate", "type": rt.String(), "on": "copy", "node": d[0], "what": d[1], "before": "usable", "after": d[2], "case": cases - 1})
					muts++
				}
			}
		}
	}
	fmt.Printf("{\"cases\":%d,\"mutations\":%d}\n", cases, muts)
}

// emptyMapProbe: walk original and copy in parallel (top-level struct fields only, one level of pointers);
// where the original holds a non-nil map the copy's map must accept an entry too.
func emptyMapProbe(o, c reflect.Value, label string) [][3]string {
	out := [][3]string{}
	for o.Kind() == reflect.Ptr && c.Kind() == reflect.Ptr {
		if o.IsNil() || c.IsNil() {
			return out
		}
		o, c = o.Elem(), c.Elem()
	}
	if o.Kind() != reflect.Struct || c.Kind() != reflect.Struct || o.Type() != c.Type() {
		return out
	}
	for i := 0; i < o.NumField(); i++ {
		f := o.Type().Field(i)
		if f.PkgPath != "" || f.Type.Kind() != reflect.Map {
			continue
		}
		om, cm := o.Field(i), c.Field(i)
		if om.IsNil() {
			continue
		}
		res := "usable"
		func() {
			defer func() {
				if r := recover(); r != nil {
					res = fmt.Sprintf("PANIC %v", r)
				}
			}()
			cm.SetMapIndex(reflect.ValueOf("zz_new").Convert(cm.Type().Key()), newElem(cm.Type().Elem()))
		}()
		out = append(out, [3]string{label + "." + f.Name, "map add on a map that is non-nil in the original", res})
	}
	return out
}
