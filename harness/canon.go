package main

// Reflection-based canonicalisation of arbitrary result / context values.
//
//   skeleton : an order-preserving textual rendering of the value in which
//              every hcl.Range / hcl.Pos is replaced by a placeholder
//   ranges   : the ranges/positions in order of occurrence, tagged with the
//              field path they were found at
//
// Used for: C02 (every range-typed field of every returned value), C03
// (digest of the result), C04 (fingerprint of PathContext incl. unexported
// fields), C18 (skeleton equal, ranges shifted).

import (
	"crypto/sha256"
	"encoding/hex"
	"fmt"
	"reflect"
	"sort"
	"strings"
	"unsafe"

	"github.com/hashicorp/hcl-lang/lang"
	"github.com/hashicorp/hcl/v2"
	"github.com/zclconf/go-cty/cty"
)

type RangeRec struct {
	// Path the range is reported for ("" = the path of the query)
	Path string
	Tag  string
	R    hcl.Range
	// IsPos: only Start is meaningful (an hcl.Pos field)
	IsPos bool
}

type canonOpts struct {
	// SkipFields: "TypeName.Field" -> true; those fields are rendered as "-"
	// (used for ranges the caller put into the schema, e.g. DirectOrigin.TargetRange)
	SkipFields map[string]bool
	// NoRanges: render ranges inline instead of collecting (fingerprint mode)
	InlineRanges bool
	// SortSlicesOf: type names whose slices are rendered as multisets
	MultisetTypes map[string]bool
	// QueryPathFields: "TypeName.Field" whose ranges belong to the path of the query
	// even though the struct carries a Path of its own
	QueryPathFields map[string]bool
}

type canoner struct {
	opts    canonOpts
	sb      strings.Builder
	ranges  []RangeRec
	onStack map[uintptr]bool
	curPath string
}

var (
	tRange    = reflect.TypeOf(hcl.Range{})
	tPos      = reflect.TypeOf(hcl.Pos{})
	tCtyType  = reflect.TypeOf(cty.Type{})
	tCtyValue = reflect.TypeOf(cty.Value{})
	tLangPath = reflect.TypeOf(lang.Path{})
)

func canonValue(v interface{}, opts canonOpts) (string, []RangeRec) {
	c := &canoner{opts: opts, onStack: map[uintptr]bool{}}
	rv := reflect.ValueOf(v)
	c.walk(addressable(rv), "")
	return c.sb.String(), c.ranges
}

func digest(s string) string {
	h := sha256.Sum256([]byte(s))
	return hex.EncodeToString(h[:8])
}

func addressable(v reflect.Value) reflect.Value {
	if !v.IsValid() || v.CanAddr() {
		return v
	}
	nv := reflect.New(v.Type()).Elem()
	nv.Set(v)
	return nv
}

func exported(v reflect.Value) reflect.Value {
	if v.CanInterface() {
		return v
	}
	if v.CanAddr() {
		return reflect.NewAt(v.Type(), unsafe.Pointer(v.UnsafeAddr())).Elem()
	}
	return v
}

func fmtRange(r hcl.Range) string {
	return fmt.Sprintf("%s:%d,%d,%d-%d,%d,%d", r.Filename, r.Start.Byte, r.Start.Line, r.Start.Column, r.End.Byte, r.End.Line, r.End.Column)
}

func (c *canoner) walk(v reflect.Value, tag string) {
	if !v.IsValid() {
		c.sb.WriteString("nil")
		return
	}
	v = exported(v)
	t := v.Type()
	switch t {
	case tRange:
		r := v.Interface().(hcl.Range)
		if c.opts.InlineRanges {
			c.sb.WriteString(fmtRange(r))
		} else {
			c.ranges = append(c.ranges, RangeRec{Path: c.curPath, Tag: tag, R: r})
			c.sb.WriteString("R")
		}
		return
	case tPos:
		p := v.Interface().(hcl.Pos)
		if c.opts.InlineRanges {
			c.sb.WriteString(fmt.Sprintf("%d,%d,%d", p.Byte, p.Line, p.Column))
		} else {
			c.ranges = append(c.ranges, RangeRec{Path: c.curPath, Tag: tag, R: hcl.Range{Start: p, End: p}, IsPos: true})
			c.sb.WriteString("P")
		}
		return
	case tCtyType:
		ty := v.Interface().(cty.Type)
		if ty == cty.NilType {
			c.sb.WriteString("cty.NilType")
		} else {
			c.sb.WriteString(ty.GoString())
		}
		return
	case tCtyValue:
		val := v.Interface().(cty.Value)
		if val == cty.NilVal {
			c.sb.WriteString("cty.NilVal")
		} else {
			c.sb.WriteString(val.GoString())
		}
		return
	}
	switch v.Kind() {
	case reflect.Bool, reflect.Int, reflect.Int8, reflect.Int16, reflect.Int32, reflect.Int64,
		reflect.Uint, reflect.Uint8, reflect.Uint16, reflect.Uint32, reflect.Uint64, reflect.Uintptr,
		reflect.Float32, reflect.Float64:
		c.sb.WriteString(fmt.Sprint(v.Interface()))
	case reflect.String:
		c.sb.WriteString(fmt.Sprintf("%q", v.String()))
	case reflect.Func:
		if v.IsNil() {
			c.sb.WriteString("func:nil")
		} else {
			c.sb.WriteString(fmt.Sprintf("func:%x", v.Pointer()))
		}
	case reflect.Chan, reflect.UnsafePointer:
		c.sb.WriteString("opaque")
	case reflect.Interface:
		if v.IsNil() {
			c.sb.WriteString("nil")
			return
		}
		e := v.Elem()
		c.sb.WriteString("(" + e.Type().String() + ")")
		c.walk(addressable(e), tag)
	case reflect.Ptr:
		if v.IsNil() {
			c.sb.WriteString("nil")
			return
		}
		p := v.Pointer()
		if c.onStack[p] {
			c.sb.WriteString("cycle")
			return
		}
		c.onStack[p] = true
		c.sb.WriteString("&")
		c.walk(v.Elem(), tag)
		delete(c.onStack, p)
	case reflect.Struct:
		tn := t.Name()
		c.sb.WriteString(tn + "{")
		saved := c.curPath
		own := saved
		for i := 0; i < v.NumField(); i++ {
			f := t.Field(i)
			if (f.Name == "Path" || f.Name == "path") && f.Type == tLangPath {
				lp := exported(v.Field(i)).Interface().(lang.Path)
				own = lp.Path
				if lp.LanguageID != "" && lp.LanguageID != "tf" && lp.LanguageID != "x" {
					own = lp.Path + "#" + lp.LanguageID
				}
			}
		}
		for i := 0; i < v.NumField(); i++ {
			f := t.Field(i)
			if c.opts.SkipFields[tn+"."+f.Name] {
				continue
			}
			if c.opts.QueryPathFields[tn+"."+f.Name] {
				c.curPath = saved
			} else {
				c.curPath = own
			}
			c.sb.WriteString(f.Name + ":")
			c.walk(v.Field(i), tag+"."+f.Name)
			c.sb.WriteString(";")
		}
		c.curPath = saved
		c.sb.WriteString("}")
	case reflect.Slice, reflect.Array:
		if v.Kind() == reflect.Slice && v.IsNil() {
			c.sb.WriteString("[]")
			return
		}
		if t.Elem().Kind() == reflect.Uint8 {
			// byte slice: digest
			b := make([]byte, v.Len())
			for i := range b {
				b[i] = byte(exported(v.Index(i)).Uint())
			}
			c.sb.WriteString("bytes:" + digest(string(b)) + fmt.Sprintf("/%d", len(b)))
			return
		}
		if c.opts.MultisetTypes[t.Elem().String()] {
			if c.opts.InlineRanges {
				parts := make([]string, v.Len())
				for i := 0; i < v.Len(); i++ {
					sub := &canoner{opts: c.opts, onStack: c.onStack, curPath: c.curPath}
					sub.walk(v.Index(i), tag)
					parts[i] = sub.sb.String()
				}
				sort.Strings(parts)
				c.sb.WriteString("{|" + strings.Join(parts, ",") + "|}")
				return
			}
			// render each element separately; order by (skeleton, positions compared as numbers): that order is the same
			// before and after a translation of the text, so translated results line up element by element
			type el struct {
				skel   string
				ranges []RangeRec
			}
			els := make([]el, v.Len())
			for i := 0; i < v.Len(); i++ {
				sub := &canoner{opts: c.opts, onStack: c.onStack, curPath: c.curPath}
				sub.walk(v.Index(i), tag+"[]")
				els[i] = el{sub.sb.String(), sub.ranges}
			}
			sort.SliceStable(els, func(i, j int) bool {
				if els[i].skel != els[j].skel {
					return els[i].skel < els[j].skel
				}
				a, b := els[i].ranges, els[j].ranges
				for k := 0; k < len(a) && k < len(b); k++ {
					if a[k].R.Filename != b[k].R.Filename {
						return a[k].R.Filename < b[k].R.Filename
					}
					if a[k].R.Start.Byte != b[k].R.Start.Byte {
						return a[k].R.Start.Byte < b[k].R.Start.Byte
					}
					if a[k].R.End.Byte != b[k].R.End.Byte {
						return a[k].R.End.Byte < b[k].R.End.Byte
					}
				}
				return len(a) < len(b)
			})
			c.sb.WriteString("{|")
			for i, e := range els {
				if i > 0 {
					c.sb.WriteString(",")
				}
				c.sb.WriteString(e.skel)
				c.ranges = append(c.ranges, e.ranges...)
			}
			c.sb.WriteString("|}")
			return
		}
		c.sb.WriteString("[")
		for i := 0; i < v.Len(); i++ {
			if i > 0 {
				c.sb.WriteString(",")
			}
			c.walk(v.Index(i), tag+"[]")
		}
		c.sb.WriteString("]")
	case reflect.Map:
		if v.IsNil() {
			c.sb.WriteString("map[]")
			return
		}
		type kv struct {
			k string
			v reflect.Value
		}
		var kvs []kv
		iter := v.MapRange()
		for iter.Next() {
			sub := &canoner{opts: c.opts, onStack: c.onStack, curPath: c.curPath}
			sub.opts.InlineRanges = true
			sub.walk(addressable(iter.Key()), tag)
			kvs = append(kvs, kv{sub.sb.String(), iter.Value()})
		}
		sort.Slice(kvs, func(i, j int) bool { return kvs[i].k < kvs[j].k })
		c.sb.WriteString("map[")
		for _, e := range kvs {
			c.sb.WriteString(e.k + ":")
			c.walk(addressable(e.v), tag+"[k]")
			c.sb.WriteString(",")
		}
		c.sb.WriteString("]")
	default:
		c.sb.WriteString("?" + v.Kind().String())
	}
}
