package main

// C19: the same abstract configuration in native and in JSON syntax.

import (
	"bufio"
	"encoding/json"
	"flag"
	"fmt"
	"os"
	"sort"
	"strconv"
	"strings"
	"sync"
	"time"

	"github.com/hashicorp/hcl-lang/decoder"
	"github.com/hashicorp/hcl-lang/reference"
)

func init() { commands["syntax"] = cmdSyntax }

func jsonVal(v *AVal) string {
	if v == nil {
		return "true"
	}
	switch v.K {
	case "str":
		return strconv.Quote(fmt.Sprint(v.V))
	case "num":
		return numText(v.V)
	case "ref":
		if len(v.Steps) == 0 {
			return strconv.Quote("${" + fmt.Sprint(v.V) + "}")
		}
	case "tmplref":
		return strconv.Quote("p-${" + fmt.Sprint(v.V) + "}")
	case "type", "kw":
		return strconv.Quote(fmt.Sprint(v.V))
	case "legref":
		// the "legacy" form of a reference in JSON: the bare address as a string
		return strconv.Quote(fmt.Sprint(v.V))
	case "list":
		parts := []string{}
		for _, e := range v.Es {
			parts = append(parts, jsonExpr(e))
		}
		return "[" + strings.Join(parts, ", ") + "]"
	case "obj":
		parts := []string{}
		for _, it := range v.Items {
			parts = append(parts, strconv.Quote(fmt.Sprint(it.Key.V))+": "+jsonExpr(it.Val))
		}
		return "{" + strings.Join(parts, ", ") + "}"
	}
	return "true"
}

func jsonExpr(e *AExpr) string {
	switch e.K {
	case "lit":
		if e.T == "string" {
			return strconv.Quote(fmt.Sprint(e.V))
		}
		return fmt.Sprint(e.V)
	case "ref":
		t, _ := refText(e.Steps)
		return strconv.Quote("${" + t + "}")
	case "list":
		parts := []string{}
		for _, x := range e.Es {
			parts = append(parts, jsonExpr(x))
		}
		return "[" + strings.Join(parts, ", ") + "]"
	case "obj":
		parts := []string{}
		for _, it := range e.Items {
			parts = append(parts, strconv.Quote(fmt.Sprint(it.Key.V))+": "+jsonExpr(it.Val))
		}
		return "{" + strings.Join(parts, ", ") + "}"
	}
	return "null"
}

// jsonBody renders the items of a body as a JSON object; blocks of one type are grouped, labels become nested keys.
func jsonBody(items []*AItem, ind string) string {
	var parts []string
	seenAttr := map[string]bool{}
	var types []string
	byType := map[string][]*AItem{}
	for _, it := range items {
		if it.K == "attr" {
			if !seenAttr[it.Name] {
				seenAttr[it.Name] = true
				parts = append(parts, ind+"  "+strconv.Quote(it.Name)+": "+jsonVal(it.Val))
			}
			continue
		}
		if _, ok := byType[it.Type]; !ok {
			types = append(types, it.Type)
		}
		byType[it.Type] = append(byType[it.Type], it)
	}
	for _, t := range types {
		parts = append(parts, ind+"  "+strconv.Quote(t)+": "+jsonBlocks(byType[t], 0, ind+"  "))
	}
	return "{\n" + strings.Join(parts, ",\n") + "\n" + ind + "}"
}

func jsonBlocks(blocks []*AItem, depth int, ind string) string {
	// all labels consumed: the bodies (an array when there are several)
	if depth >= len(blocks[0].Labels) {
		if len(blocks) == 1 {
			return jsonBody(blocks[0].Body, ind)
		}
		bs := []string{}
		for _, b := range blocks {
			bs = append(bs, jsonBody(b.Body, ind))
		}
		return "[" + strings.Join(bs, ", ") + "]"
	}
	var keys []string
	groups := map[string][]*AItem{}
	for _, b := range blocks {
		k := b.Labels[depth]
		if _, ok := groups[k]; !ok {
			keys = append(keys, k)
		}
		groups[k] = append(groups[k], b)
	}
	parts := []string{}
	for _, k := range keys {
		parts = append(parts, ind+"  "+strconv.Quote(k)+": "+jsonBlocks(groups[k], depth+1, ind+"  "))
	}
	return "{\n" + strings.Join(parts, ",\n") + "\n" + ind + "}"
}

// expressible: every block is of a known type and carries exactly the labels of its schema (JSON decoding is schema driven)
func expressible(s *ABody, items []*AItem) bool {
	for _, it := range items {
		if it.K != "block" {
			// JSON decoding is schema driven: an attribute the schema does not know is not expressible
			if s.IsNil() {
				return false
			}
			_, known := s.Attrs[it.Name]
			ext := (it.Name == "count" && s.Ext.Count) || (it.Name == "for_each" && s.Ext.ForEach)
			if !known && !s.Any && !ext && !knownInSomeDep(s, it.Name) {
				return false
			}
			continue
		}
		if s.IsNil() {
			return false
		}
		if it.Type == "dynamic" && s.Ext.Dyn && len(it.Labels) == 1 {
			// dynamic "<type>" { for_each = .., content { .. } } where the body allows dynamic blocks
			target, ok := s.Blocks[it.Labels[0]]
			if !ok || target.Body.IsNil() {
				return false
			}
			for _, x := range it.Body {
				if x.K != "block" {
					if x.Name != "for_each" && x.Name != "iterator" && x.Name != "labels" {
						return false
					}
					continue
				}
				if x.Type != "content" || len(x.Labels) != 0 || !expressible(target.Body, x.Body) {
					return false
				}
			}
			continue
		}
		bs, ok := s.Blocks[it.Type]
		if !ok || len(bs.Labels) != len(it.Labels) || bs.Body.IsNil() {
			return false
		}
		inner := bs.Body
		// a dependent body may add blocks; look them up loosely: any dependent body that knows the nested type
		for _, nb := range it.Body {
			if nb.K == "block" {
				found := false
				if _, ok := inner.Blocks[nb.Type]; ok {
					found = true
				}
				if nb.Type == "dynamic" && inner.Ext.Dyn {
					found = true
				}
				if !found {
					return false
				}
			}
		}
		if !expressible(inner, it.Body) {
			return false
		}
	}
	return true
}

// knownInSomeDep: attribute names of dependent bodies are looked up loosely (the dependent body is chosen per block)
var depAttrNames = map[*ABody]map[string]bool{}

func knownInSomeDep(s *ABody, name string) bool {
	return depNames[name]
}

var depNames = map[string]bool{}

func collectDepNames(b *ABody) {
	if b.IsNil() {
		return
	}
	for _, blk := range b.Blocks {
		for _, d := range blk.Deps {
			if !d.Body.IsNil() {
				for n := range d.Body.Attrs {
					depNames[n] = true
				}
				collectDepNames(d.Body)
			}
		}
		collectDepNames(blk.Body)
	}
}

type synObs struct {
	Targets [][]interface{} // [addr names, scope, type, nested count]
	Origins []string
	Symbols []string // name paths
	Status  string
}

func symPaths(syms []decoder.Symbol, prefix string, out *[]string) {
	for _, s := range syms {
		switch s.(type) {
		case *decoder.BlockSymbol, *decoder.AttributeSymbol:
			p := prefix + "/" + s.Name()
			*out = append(*out, p)
			symPaths(s.NestedSymbols(), p, out)
		}
	}
}

func observeSyntax(wt *watch, c *TargetsCase, file string, src []byte) synObs {
	s := buildBody(c.Schema)
	env := envFor(s, src)
	pc := env.R.Ctxs["p1"]
	delete(pc.Files, "t.tf")
	pc.Files[file] = parseFile(file, src)
	o := synObs{Status: "ok"}
	if pc.Files[file] == nil {
		o.Status = "noparse"
		return o
	}
	tOut, oOut := env.Recollect(wt, "p1")
	if tOut.Status != "ok" || oOut.Status != "ok" {
		o.Status = tOut.Status + "/" + oOut.Status
	}
	var flat func(ts reference.Targets, depth int)
	flat = func(ts reference.Targets, depth int) {
		for _, t := range ts {
			if len(t.Addr) == 0 {
				continue // block-local targets cannot be delimited in JSON
			}
			o.Targets = append(o.Targets, []interface{}{canonAddr(t.Addr), string(t.ScopeId), typeName(t.Type), depth})
			flat(t.NestedTargets, depth+1)
		}
	}
	flat(pc.ReferenceTargets, 0)
	sort.Slice(o.Targets, func(i, j int) bool { return fmt.Sprint(o.Targets[i]) < fmt.Sprint(o.Targets[j]) })
	for _, og := range pc.ReferenceOrigins {
		if lo, ok := og.(reference.LocalOrigin); ok {
			o.Origins = append(o.Origins, lo.Addr.String())
		}
	}
	sort.Strings(o.Origins)
	so := env.Run(wt, Q{Kind: "wsymbols", Query: ""})
	if syms, ok := so.Value.([]decoder.Symbol); ok {
		symPaths(syms, "", &o.Symbols)
	}
	sort.Strings(o.Symbols)
	if o.Targets == nil {
		o.Targets = [][]interface{}{}
	}
	if o.Origins == nil {
		o.Origins = []string{}
	}
	if o.Symbols == nil {
		o.Symbols = []string{}
	}
	return o
}

func cmdSyntax(fs *flag.FlagSet) {
	in := fs.String("cases", "", "NDJSON cases from TLC (MC_Targets)")
	out := fs.String("out", "syntax", "output prefix")
	fs.Int64("seed", 1, "seed")
	shards := fs.Int("shards", 8, "shards")
	fs.Parse(os.Args[2:])
	startWatchdog(60 * time.Second)
	f, err := os.Open(*in)
	if err != nil {
		fatal("open: %v", err)
	}
	var cases []*TargetsCase
	sc := bufio.NewScanner(f)
	sc.Buffer(make([]byte, 1<<20), 1<<24)
	for sc.Scan() {
		var c TargetsCase
		if err := json.Unmarshal(sc.Bytes(), &c); err != nil {
			fatal("bad case: %v", err)
		}
		collectDepNames(c.Schema)
		if expressible(c.Schema, c.Doc) {
			cases = append(cases, &c)
		}
	}
	f.Close()
	var wg sync.WaitGroup
	counts := make([]int, *shards)
	for s := 0; s < *shards; s++ {
		wg.Add(1)
		go func(s int) {
			defer wg.Done()
			wt := newWatch()
			tw := newTraceWriter(fmt.Sprintf("%s.%03d.ndjson", *out, s))
			defer tw.Close()
			for i := s; i < len(cases); i += *shards {
				c := cases[i]
				rd := Render(c.Doc, newLayout(int64(i), 0), nil)
				n := observeSyntax(wt, c, "t.tf", rd.Src)
				j := observeSyntax(wt, c, "t.tf.json", []byte(jsonBody(c.Doc, "")+"\n"))
				tw.Emit(Event{"ev": "Syntax", "case": i, "layout": 0, "schema": c.Schema, "doc": c.Doc,
					"native": Event{"status": n.Status, "targets": n.Targets, "origins": n.Origins, "symbols": n.Symbols},
					"json":   Event{"status": j.Status, "targets": j.Targets, "origins": j.Origins, "symbols": j.Symbols}})
				counts[s]++
			}
		}(s)
	}
	wg.Wait()
	n := 0
	for _, c := range counts {
		n += c
	}
	fmt.Printf("{\"cases\":%d,\"events\":%d}\n", len(cases), n)
}
