package main

// Further direction-B drivers:
//   det    C03  repeated / re-ordered / fresh-decoder runs of every query key -> Det events (memo rule)
//   frame  C04  fingerprint of the caller's data before/after every single query -> Q events with fp
//   shift  C18  results before/after inserting lines that only move text -> Shift events

import (
	"flag"
	"fmt"
	"math/rand"
	"os"
	"sort"
	"strings"
	"sync"
	"time"

	"github.com/hashicorp/hcl-lang/decoder"
	"github.com/hashicorp/hcl/v2"
	"github.com/hashicorp/hcl/v2/hclsyntax"
)

func init() {
	commands["det"] = cmdDet
	commands["frame"] = cmdFrame
	commands["shift"] = cmdShift
}

// queryKeys enumerates the query keys of a world state: all kinds; positional kinds at the given stride.
func queryKeys(w *World, path string, stride int, rng *rand.Rand) []Q {
	return queryKeysFocus(w, path, stride, rng, "", nil)
}

// queryKeysFocusAll: the focus lines apply to every file
func queryKeysFocusAll(w *World, path string, stride int, rng *rand.Rand, focus map[int]bool) []Q {
	seen := map[string]bool{}
	out := []Q{}
	for _, f := range sortedKeys(w.Docs) {
		for _, q := range queryKeysFocus(w, path, stride, rng, f, focus) {
			if k := qKey(q); !seen[k] {
				seen[k] = true
				out = append(out, q)
			}
		}
	}
	return out
}

// queryKeysFocus: as queryKeys, but every position on the focus lines of the focus file is kept whatever the stride.
func queryKeysFocus(w *World, path string, stride int, rng *rand.Rand, focusFile string, focus map[int]bool) []Q {
	qs := []Q{}
	for _, f := range sortedKeys(w.Docs) {
		src := []byte(w.Docs[f])
		bs := Boundaries(src)
		off := 0
		if stride > 1 {
			off = rng.Intn(stride)
		}
		for _, k := range positional {
			for i, p := range bs {
				if stride > 1 && (i+off)%stride != 0 && !(f == focusFile && focus[p.Line]) {
					continue
				}
				qs = append(qs, Q{Kind: k, Path: path, File: f, Pos: p})
				if k == "completion" {
					qs = append(qs, Q{Kind: k, Path: path, File: f, Pos: p, Prefill: true})
				}
			}
		}
		for _, k := range fileLevel {
			qs = append(qs, Q{Kind: k, Path: path, File: f})
		}
	}
	for _, k := range pathLevel {
		qs = append(qs, Q{Kind: k, Path: path})
	}
	qs = append(qs, Q{Kind: "wsymbols", Path: path, Query: "a"})
	return qs
}

func qKey(q Q) string {
	return fmt.Sprintf("%s|%s|%s|%d|%v|%s", q.Kind, q.Path, q.File, q.Pos.Byte, q.Prefill, q.Query)
}

func obsDigest(o Outcome) string {
	if o.Status == "panic" {
		return "panic:" + o.Site
	}
	s, rs := observe(o)
	var sb strings.Builder
	sb.WriteString(s)
	for _, r := range rs {
		sb.WriteString(fmtRange(r.R))
		sb.WriteString(";")
	}
	return digest(sb.String())
}

// ---------------------------------------------------------------- det (C03)

func cmdDet(fs *flag.FlagSet) {
	worlds := fs.String("worlds", "kinds,tf,tfbad,hostile", "worlds")
	out := fs.String("out", "det", "output prefix")
	seed := fs.Int64("seed", 1, "seed")
	rounds := fs.Int("rounds", 6, "rounds per regime")
	stride := fs.Int("stride", 7, "position stride")
	nstates := fs.Int("states", 0, "half-typed buffer states per world besides the documents")
	fs.Parse(os.Args[2:])
	hangFile = *out + ".hang"
	startWatchdog(60 * time.Second)
	names := strings.Split(*worlds, ",")
	var wg sync.WaitGroup
	total := make([]int, len(names))
	for wi, wn := range names {
		wg.Add(1)
		go func(wi int, wn string) {
			defer wg.Done()
			w0 := worldByName(wn)
			wt := newWatch()
			rng := rand.New(rand.NewSource(*seed + int64(wi)))
			// the memo rule is per query key: the events of one world are spread over several trace files by key (validated in
			// parallel; one long trace with a growing memo is quadratic for TLC)
			const nShards = 8
			tws := make([]*traceWriter, nShards)
			for i := range tws {
				tws[i] = newTraceWriter(fmt.Sprintf("%s.%03d.ndjson", *out, wi*nShards+i))
			}
			defer func() {
				for _, t := range tws {
					t.Close()
				}
			}()
			shardOf := func(key string) *traceWriter {
				h := 0
				for _, c := range key {
					h = (h*31 + int(c)) & 0x7fffffff
				}
				return tws[h%nShards]
			}
			// buffer states: the documents as they are, then sampled half-typed states of every native document
			type dstate struct {
				w      *World
				note   string
				rounds int
			}
			states := []dstate{{w0, "doc", *rounds}}
			if *nstates > 0 {
				cands := []StateSpec{}
				for _, f := range sortedKeys(w0.Docs) {
					if strings.HasSuffix(f, ".json") {
						continue
					}
					cands = append(cands, prefixStates(w0, f, 1, 0)...)
					cands = append(cands, editStates(w0, f, rng, 0.02, 0)...)
				}
				rng.Shuffle(len(cands), func(i, j int) { cands[i], cands[j] = cands[j], cands[i] })
				if len(cands) > *nstates {
					cands = cands[:*nstates]
				}
				for _, c := range cands {
					w2 := *w0
					w2.Docs = map[string]string{}
					for k, v := range w0.Docs {
						w2.Docs[k] = v
					}
					w2.Docs[c.File] = string(c.Src)
					states = append(states, dstate{&w2, c.File + ":" + c.Note, *rounds/3 + 1})
				}
			}
			for si, st := range states {
				w := st.w
				for _, tw := range tws {
					if si > 0 {
						tw.Emit(Event{"ev": "Reset"})
					}
					tw.Emit(Event{"ev": "Init", "p": "p1", "world": wn, "state": st.note, "files": sortedKeys(w.Docs)})
				}
				focus := map[int]bool{1: true}
				keys := []Q{}
				for _, f := range sortedKeys(w.Docs) {
					nl := strings.Count(w.Docs[f], "\n") + 1
					focus[nl], focus[nl-1] = true, true
				}
				for _, f := range sortedKeys(w.Docs) {
					_ = f
				}
				keys = queryKeysFocusAll(w, "p1", *stride, rng, focus)
				// regime 1: one environment, one decoder, shuffled order per round (history independence)
				env := newEnv(w, "p1")
				env.Recollect(wt, "p1")
				emit := func(regime string, q Q, o Outcome) {
					shardOf(qKey(q)).Emit(Event{"ev": "Det", "key": qKey(q), "dg": obsDigest(o), "regime": regime})
					total[wi]++
				}
				for r := 0; r < st.rounds; r++ {
					rng.Shuffle(len(keys), func(i, j int) { keys[i], keys[j] = keys[j], keys[i] })
					for _, q := range keys {
						emit("same-decoder", q, env.Run(wt, q))
					}
				}
				// regime 2: fresh decoder per call on the same context
				for r := 0; r < st.rounds/2+1; r++ {
					for _, q := range keys {
						d := decoder.NewDecoder(env.R)
						d.SetContext(newDecCtx())
						emit("fresh-decoder", q, env.RunOn(wt, d, q))
					}
				}
				// regime 3: fresh environment (schema, files, targets built anew) per round
				for r := 0; r < st.rounds/2+1; r++ {
					wf := worldByName(wn)
					wf.Docs = w.Docs
					e2 := newEnv(wf, "p1")
					e2.Recollect(wt, "p1")
					for _, q := range keys {
						emit("fresh-context", q, e2.Run(wt, q))
					}
				}
			}
		}(wi, wn)
	}
	wg.Wait()
	n := 0
	for _, t := range total {
		n += t
	}
	fmt.Printf("{\"events\":%d,\"files\":%d}\n", n, len(names)*8)
}

// ---------------------------------------------------------------- frame (C04)

func cmdFrame(fs *flag.FlagSet) {
	worlds := fs.String("worlds", "kinds,tf,tfbad,hostile", "worlds")
	out := fs.String("out", "frame", "output prefix")
	seed := fs.Int64("seed", 1, "seed")
	stride := fs.Int("stride", 23, "position stride")
	fs.Parse(os.Args[2:])
	hangFile = *out + ".hang"
	startWatchdog(60 * time.Second)
	names := strings.Split(*worlds, ",")
	var wg sync.WaitGroup
	total := make([]int, len(names))
	for wi, wn := range names {
		wg.Add(1)
		go func(wi int, wn string) {
			defer wg.Done()
			w := worldByName(wn)
			wt := newWatch()
			rng := rand.New(rand.NewSource(*seed + int64(wi)))
			tw := newTraceWriter(fmt.Sprintf("%s.%03d.ndjson", *out, wi))
			defer tw.Close()
			env := newEnv(w, "p1")
			emitInit(tw, w)
			for _, pk := range sortedPeerKeys(w) {
				env.Recollect(wt, pk)
			}
			tOut, oOut := env.Recollect(wt, "p1")
			tw.Emit(Event{"ev": "Collect", "p": "p1", "t": tOut.Status, "o": oOut.Status, "panics": []Event{}, "fp": env.Fingerprint()})
			keys := queryKeys(w, "p1", *stride, rng)
			rng.Shuffle(len(keys), func(i, j int) { keys[i], keys[j] = keys[j], keys[i] })
			for _, q := range keys {
				a := newAgg(q.Kind)
				o := env.Run(wt, q)
				a.Add(q, o)
				ev := a.Event("p1", q.File)
				if q.File == "" {
					ev["f"] = sortedKeys(w.Docs)[0]
				}
				ev["fp"] = env.Fingerprint()
				ev["at"] = q.Pos.Byte
				tw.Emit(ev)
				total[wi]++
			}
		}(wi, wn)
	}
	wg.Wait()
	n := 0
	for _, t := range total {
		n += t
	}
	fmt.Printf("{\"events\":%d,\"files\":%d}\n", n, len(names))
}

// ---------------------------------------------------------------- shift (C18)

// topLevelLines returns the 1-based start lines of the top-level items of a native-syntax document
// (only items that start in column 1), plus the last (empty) line for "append after the last item".
// atTopLevelAtEOF: the buffer ends outside every bracket, template and heredoc, i.e. text appended on a new line is
// "after the last item" and not inside one.
func atTopLevelAtEOF(src []byte) bool {
	toks, _ := hclsyntax.LexConfig(src, "x.tf", hcl.InitialPos)
	depth := 0
	for _, t := range toks {
		switch t.Type {
		case hclsyntax.TokenOBrace, hclsyntax.TokenOBrack, hclsyntax.TokenOParen, hclsyntax.TokenOQuote, hclsyntax.TokenOHeredoc,
			hclsyntax.TokenTemplateInterp, hclsyntax.TokenTemplateControl:
			depth++
		case hclsyntax.TokenCBrace, hclsyntax.TokenCBrack, hclsyntax.TokenCParen, hclsyntax.TokenCQuote, hclsyntax.TokenCHeredoc,
			hclsyntax.TokenTemplateSeqEnd:
			depth--
		case hclsyntax.TokenInvalid, hclsyntax.TokenBadUTF8, hclsyntax.TokenQuotedNewline:
			return false
		}
	}
	return depth == 0
}

// bodyAnchors: where the parser puts the beginning of the root body before and after the edit
func bodyAnchors(src, nsrc []byte) [][6]int {
	f1, _ := hclsyntax.ParseConfig(src, "x.tf", hcl.InitialPos)
	f2, _ := hclsyntax.ParseConfig(nsrc, "x.tf", hcl.InitialPos)
	if f1 == nil || f2 == nil {
		return [][6]int{}
	}
	a, b := f1.Body.(*hclsyntax.Body).SrcRange.Start, f2.Body.(*hclsyntax.Body).SrcRange.Start
	return [][6]int{{a.Byte, a.Line, a.Column, b.Byte, b.Line, b.Column}}
}

// lastTokenComplete: the last token of the buffer can end an item (identifier, literal, closing bracket or quote)
func lastTokenComplete(src []byte) bool {
	toks, _ := hclsyntax.LexConfig(src, "x.tf", hcl.InitialPos)
	for i := len(toks) - 1; i >= 0; i-- {
		switch toks[i].Type {
		case hclsyntax.TokenEOF, hclsyntax.TokenNewline:
			continue
		case hclsyntax.TokenIdent, hclsyntax.TokenNumberLit, hclsyntax.TokenCQuote, hclsyntax.TokenCBrace, hclsyntax.TokenCBrack,
			hclsyntax.TokenCParen, hclsyntax.TokenCHeredoc:
			return toks[i].Range.End.Byte == len(src) // nothing (not even a blank) behind it
		default:
			return false
		}
	}
	return false
}

func topLevelLines(src []byte) []int {
	f, _ := hclsyntax.ParseConfig(src, "x.tf", hcl.InitialPos)
	if f == nil {
		return nil
	}
	body, ok := f.Body.(*hclsyntax.Body)
	if !ok {
		return nil
	}
	set := map[int]bool{}
	for _, a := range body.Attributes {
		if a.SrcRange.Start.Column == 1 {
			set[a.SrcRange.Start.Line] = true
		}
	}
	for _, b := range body.Blocks {
		if b.Range().Start.Column == 1 {
			set[b.Range().Start.Line] = true
		}
	}
	if len(src) > 0 && src[len(src)-1] == '\n' && atTopLevelAtEOF(src) {
		set[strings.Count(string(src), "\n")+1] = true
	}
	out := []int{}
	for l := range set {
		out = append(out, l)
	}
	sort.Ints(out)
	return out
}

var insertions = []string{
	"\n",
	"\n\n\n",
	"# a comment line\n",
	"// комментарий – ünïcode ✓\n\n",
	"/* block\n   comment */\n",
}

func lineStartOffset(src []byte, line int) int {
	off := 0
	for l := 1; l < line; l++ {
		i := strings.IndexByte(string(src[off:]), '\n')
		if i < 0 {
			return len(src)
		}
		off += i + 1
	}
	return off
}

func cmdShift(fs *flag.FlagSet) {
	worlds := fs.String("worlds", "kinds,tf", "worlds")
	out := fs.String("out", "shift", "output prefix")
	seed := fs.Int64("seed", 1, "seed")
	stride := fs.Int("stride", 5, "position stride")
	maxIns := fs.Int("maxins", 4, "insertion points per file (0 = all)")
	localOnly := fs.String("localonly", "", "worlds (comma separated) in which only the edited file is queried (many small files)")
	prefixStride := fs.Int("prefixes", 0, "also run on every n-th token prefix of every document (0 = documents only)")
	fs.Parse(os.Args[2:])
	hangFile = *out + ".hang"
	startWatchdog(60 * time.Second)
	rng := rand.New(rand.NewSource(*seed))
	type job struct {
		w    *World // the world with the state's buffer as its document
		file string
		at   int
		ins  string
		note string
	}
	jobs := []job{}
	for _, wn := range strings.Split(*worlds, ",") {
		w := worldByName(wn)
		if w == nil {
			fatal("no world %q", wn)
		}
		for _, f := range sortedKeys(w.Docs) {
			if strings.HasSuffix(f, ".json") {
				continue
			}
			// buffer states: the document itself, and what it looked like while it was being typed (token prefixes)
			states := []StateSpec{{World: w, File: f, Src: []byte(w.Docs[f]), Note: "doc"}}
			ps := prefixStates(w, f, 1, 0)
			for i, st := range ps {
				if *prefixStride > 0 && (i < 3 || (i+int(*seed))%*prefixStride == 0) {
					states = append(states, st)
				}
			}
			for _, st := range states {
				src := string(st.Src)
				nl := strings.Count(src, "\n") + 1
				isDoc := st.Note == "doc"
				lines := topLevelLines(st.Src)
				max := *maxIns
				if !isDoc && (max == 0 || max > 3) {
					max = 3
				}
				// always: the top of the file, and the append point if the buffer ends at the top level
				keep := []int{1}
				appendAt := 0
				if atTopLevelAtEOF(st.Src) {
					appendAt = nl
					if !strings.HasSuffix(src, "\n") {
						appendAt = nl + 1 // after the last line (which has no terminator yet)
						if !lastTokenComplete(st.Src) {
							// the appended text would begin by terminating an item that visibly expects a continuation
							// (`x = a.`, `x = 1 +`): that is an edit of the item, not an edit elsewhere
							appendAt = 0
						}
					}
					if appendAt != 0 {
						keep = append(keep, appendAt)
					}
				}
				rng.Shuffle(len(lines), func(i, j int) { lines[i], lines[j] = lines[j], lines[i] })
				for _, l := range lines {
					if (max == 0 || len(keep) < max) && l != 1 && l != appendAt && l <= nl {
						keep = append(keep, l)
					}
				}
				w2 := *w
				w2.Docs = map[string]string{}
				for k, v := range w.Docs {
					w2.Docs[k] = v
				}
				w2.Docs[f] = src
				for _, at := range keep {
					for ii, ins := range insertions {
						if *maxIns > 0 && rng.Intn(2) == 0 && ins != insertions[3] {
							continue
						}
						if !isDoc && ii != 3 && rng.Intn(3) != 0 {
							continue
						}
						jobs = append(jobs, job{&w2, f, at, ins, st.Note})
					}
				}
			}
		}
	}
	var wg sync.WaitGroup
	shards := 16
	if shards > len(jobs) {
		shards = len(jobs)
	}
	nEv := make([]int, shards)
	for s := 0; s < shards; s++ {
		wg.Add(1)
		go func(s int) {
			defer wg.Done()
			wt := newWatch()
			tw := newTraceWriter(fmt.Sprintf("%s.%03d.ndjson", *out, s))
			defer tw.Close()
			lrng := rand.New(rand.NewSource(*seed + int64(s)))
			for ji := s; ji < len(jobs); ji += shards {
				j := jobs[ji]
				src := []byte(j.w.Docs[j.file])
				off := lineStartOffset(src, j.at)
				ins := j.ins
				if j.at == strings.Count(string(src), "\n")+2 {
					// appended after an unterminated last line
					off = len(src)
					ins = "\n" + strings.TrimSuffix(ins, "\n")
				}
				appended := off == len(src) && !strings.HasSuffix(string(src), "\n")
				nsrc := append(append(append([]byte{}, src[:off]...), ins...), src[off:]...)
				dl := strings.Count(j.ins, "\n")
				db := len(j.ins)
				before := newEnv(j.w, "p1")
				before.Recollect(wt, "p1")
				after := newEnv(j.w, "p1")
				after.SetFile("p1", j.file, nsrc)
				after.Recollect(wt, "p1")
				if ji >= shards {
					tw.Emit(Event{"ev": "Reset"})
				}
				emitInit(tw, j.w)
				tw.Emit(Event{"ev": "InsertLines", "p": "p1", "f": j.file, "at": j.at, "ins": Lines([]byte(j.ins))[:dl], "state": j.note, "anch": bodyAnchors(src, nsrc), "dl": dl, "db": db,
					"lines": Lines(nsrc), "len": len(nsrc), "note": fmt.Sprintf("%s at:%d ins:%q", j.note, j.at, j.ins)})
				nl := strings.Count(string(src), "\n") + 1
				keys := queryKeysFocus(j.w, "p1", *stride, lrng, j.file, map[int]bool{1: true, j.at - 1: true, j.at: true, j.at + 1: true, nl - 1: true, nl: true})
				if strings.Contains(","+*localOnly+",", ","+j.w.Name+",") {
					loc := keys[:0:0]
					for _, q := range keys {
						if q.File == j.file || q.File == "" {
							loc = append(loc, q)
						}
					}
					keys = loc
				}
				type agg struct {
					n, skelDiff, lenDiff int
					pairs                map[[6]int]bool
					files                map[string]bool
					example              string
				}
				aggs := map[string]*agg{}
				for _, q := range keys {
					a := aggs[q.Kind]
					if a == nil {
						a = &agg{pairs: map[[6]int]bool{}, files: map[string]bool{}}
						aggs[q.Kind] = a
					}
					q2 := q
					if q.File == j.file && q.Pos.Line >= j.at {
						q2.Pos = hcl.Pos{Line: q.Pos.Line + dl, Column: q.Pos.Column, Byte: q.Pos.Byte + db}
					}
					if q.File == "" {
						q2.Pos = q.Pos
					}
					o1 := before.Run(wt, q)
					o2 := after.Run(wt, q2)
					s1, r1 := observe(o1)
					s2, r2 := observe(o2)
					if appended && q.File == j.file && q.Pos.Byte == len(src) {
						// the cursor sits at the insertion point itself (the old end of the buffer): whether a position at the
						// very end of a file is "inside" it is a boundary convention - no answer and an error are the same there
						s1, s2 = noAnswer(o1, s1), noAnswer(o2, s2)
					}
					a.n++
					if s1 != s2 {
						a.skelDiff++
						if a.example == "" {
							a.example = fmt.Sprintf("%s: %.300s  =/=  %.300s", q.String(), firstDiff(s1, s2), firstDiff(s2, s1))
						}
						continue
					}
					if len(r1) != len(r2) {
						a.lenDiff++
						continue
					}
					for i := range r1 {
						x, y := r1[i].R, r2[i].R
						if x.Filename != y.Filename {
							a.lenDiff++
							continue
						}
						if x.Filename != j.file {
							// another file of the path: must be identical
							if x != y {
								a.lenDiff++
							}
							continue
						}
						a.pairs[[6]int{x.Start.Byte, x.Start.Line, x.Start.Column, y.Start.Byte, y.Start.Line, y.Start.Column}] = true
						if !r1[i].IsPos {
							a.pairs[[6]int{x.End.Byte, x.End.Line, x.End.Column, y.End.Byte, y.End.Line, y.End.Column}] = true
						}
					}
				}
				ks := []string{}
				for k := range aggs {
					ks = append(ks, k)
				}
				sort.Strings(ks)
				for _, k := range ks {
					a := aggs[k]
					ps := make([][6]int, 0, len(a.pairs))
					for p := range a.pairs {
						ps = append(ps, p)
					}
					sort.Slice(ps, func(i, j int) bool { return fmt.Sprint(ps[i]) < fmt.Sprint(ps[j]) })
					tw.Emit(Event{"ev": "Shift", "k": k, "p": "p1", "f": j.file, "n": a.n, "skeldiff": a.skelDiff, "lendiff": a.lenDiff, "pairs": ps, "example": a.example})
					nEv[s] += a.n
				}
			}
		}(s)
	}
	wg.Wait()
	n := 0
	for _, t := range nEv {
		n += t
	}
	fmt.Printf("{\"queries\":%d,\"jobs\":%d,\"files\":%d}\n", n, len(jobs), shards)
}

func noAnswer(o Outcome, skel string) string {
	if o.Status == "error" || (o.Status == "ok" && (o.Value == nil || strings.HasSuffix(skel, "|nil"))) {
		return "no answer"
	}
	return skel
}

func firstDiff(a, b string) string {
	i := 0
	for i < len(a) && i < len(b) && a[i] == b[i] {
		i++
	}
	s := i - 40
	if s < 0 {
		s = 0
	}
	return a[s:]
}
