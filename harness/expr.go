package main

// Abstract expressions (ExprRules.tla) and their renderer with extents.

import (
	"fmt"
	"strconv"
	"strings"
)

type AStep struct {
	K string      `json:"k"` // root | attr | idx | key | legacy | splat
	V interface{} `json:"v,omitempty"`
}

type AObjItem struct {
	Key *AExpr `json:"key"` // k = "id" (bare identifier), "str" (quoted), or any expression (rendered in parentheses)
	Val *AExpr `json:"val"`
}

type AExpr struct {
	K     string        `json:"k"`
	T     string        `json:"t,omitempty"`  // literal type
	V     interface{}   `json:"v,omitempty"`  // literal text / identifier
	Steps Seq[AStep]    `json:"steps"`        // ref
	Es    Seq[*AExpr]   `json:"es"`           // list / tmpl parts / call args
	Items Seq[AObjItem] `json:"items"`        // obj
	Op    string        `json:"op,omitempty"` // bin / un
	L     *AExpr        `json:"l,omitempty"`
	R     *AExpr        `json:"r,omitempty"`
	E     *AExpr        `json:"e,omitempty"` // un / paren / index base
	C     *AExpr        `json:"c,omitempty"` // cond condition / for condition
	Tt    *AExpr        `json:"tt,omitempty"`
	Ff    *AExpr        `json:"ff,omitempty"`
	Fn    string        `json:"fn,omitempty"`
	Key   *AExpr        `json:"key,omitempty"` // index key
	Coll  *AExpr        `json:"coll,omitempty"`
	Body  *AExpr        `json:"body,omitempty"`
}

// ExprExt: extents of the nodes of a rendered expression, keyed by node path (e.g. "es.2", "items.1.val", "l").
type ExprExt struct {
	Full  [2]int
	Steps [][2]int // reference: extent of every step (root name, attribute name incl. nothing else, index incl. brackets)
	Name  [2]int   // call: function name
	Kind  string
}

type exprRenderer struct {
	sb    *strings.Builder
	ext   map[string]*ExprExt
	style int
}

func (r *exprRenderer) sp() string {
	if r.style%2 == 1 {
		return ""
	}
	return " "
}

func refText(steps []AStep) (string, [][2]int) {
	var sb strings.Builder
	ext := [][2]int{}
	for i, s := range steps {
		st := sb.Len()
		switch s.K {
		case "root":
			sb.WriteString(fmt.Sprint(s.V))
		case "attr":
			sb.WriteString(".")
			st = sb.Len()
			sb.WriteString(fmt.Sprint(s.V))
		case "idx":
			sb.WriteString("[" + numText(s.V) + "]")
		case "key":
			sb.WriteString("[" + strconv.Quote(fmt.Sprint(s.V)) + "]")
		case "legacy":
			sb.WriteString("." + numText(s.V))
		case "splat":
			sb.WriteString("[*]")
		}
		_ = i
		ext = append(ext, [2]int{st, sb.Len()})
	}
	return sb.String(), ext
}

func numText(v interface{}) string {
	if f, ok := v.(float64); ok {
		return strconv.Itoa(int(f))
	}
	return fmt.Sprint(v)
}

func (r *exprRenderer) render(e *AExpr, path string) {
	x := &ExprExt{Kind: e.K}
	r.ext[path] = x
	x.Full[0] = r.sb.Len()
	sub := func(p string) string {
		if path == "" {
			return p
		}
		return path + "." + p
	}
	switch e.K {
	case "lit":
		switch e.T {
		case "string":
			r.sb.WriteString(strconv.Quote(fmt.Sprint(e.V)))
		case "null":
			r.sb.WriteString("null")
		default:
			r.sb.WriteString(fmt.Sprint(e.V))
		}
	case "raw", "kw", "type", "tprim", "tbad":
		r.sb.WriteString(fmt.Sprint(e.V))
	case "tcoll":
		x.Name = [2]int{r.sb.Len(), r.sb.Len() + len(e.Fn)}
		r.sb.WriteString(e.Fn + "(")
		r.render(e.E, sub("e"))
		r.sb.WriteString(")")
	case "topt":
		x.Name = [2]int{r.sb.Len(), r.sb.Len() + len("optional")}
		r.sb.WriteString("optional(")
		r.render(e.E, sub("e"))
		r.sb.WriteString(")")
	case "tobj":
		x.Name = [2]int{r.sb.Len(), r.sb.Len() + len("object")}
		r.sb.WriteString("object({" + r.sp())
		for i, it := range e.Items {
			if i > 0 {
				r.sb.WriteString("," + r.sp())
			}
			kp := sub(fmt.Sprintf("items.%d.key", i+1))
			r.ext[kp] = &ExprExt{Kind: "id", Full: [2]int{r.sb.Len(), r.sb.Len() + len(fmt.Sprint(it.Key.V))}}
			r.sb.WriteString(fmt.Sprint(it.Key.V))
			r.sb.WriteString(" = ")
			r.render(it.Val, sub(fmt.Sprintf("items.%d.val", i+1)))
		}
		r.sb.WriteString(r.sp() + "})")
	case "ttup":
		x.Name = [2]int{r.sb.Len(), r.sb.Len() + len("tuple")}
		r.sb.WriteString("tuple([")
		for i, el := range e.Es {
			if i > 0 {
				r.sb.WriteString("," + r.sp())
			}
			r.render(el, sub(fmt.Sprintf("es.%d", i+1)))
		}
		r.sb.WriteString("])")
	case "ref":
		base := r.sb.Len()
		txt, ext := refText(e.Steps)
		r.sb.WriteString(txt)
		for _, s := range ext {
			x.Steps = append(x.Steps, [2]int{base + s[0], base + s[1]})
		}
	case "list":
		r.sb.WriteString("[")
		for i, el := range e.Es {
			if i > 0 {
				r.sb.WriteString("," + r.sp())
			}
			r.render(el, sub(fmt.Sprintf("es.%d", i+1)))
		}
		r.sb.WriteString("]")
	case "obj":
		r.sb.WriteString("{" + r.sp())
		for i, it := range e.Items {
			if i > 0 {
				r.sb.WriteString("," + r.sp())
			}
			kp := sub(fmt.Sprintf("items.%d.key", i+1))
			switch it.Key.K {
			case "id":
				r.ext[kp] = &ExprExt{Kind: "id", Full: [2]int{r.sb.Len(), r.sb.Len() + len(fmt.Sprint(it.Key.V))}}
				r.sb.WriteString(fmt.Sprint(it.Key.V))
			case "str":
				q := strconv.Quote(fmt.Sprint(it.Key.V))
				r.ext[kp] = &ExprExt{Kind: "str", Full: [2]int{r.sb.Len(), r.sb.Len() + len(q)}}
				r.sb.WriteString(q)
			default:
				r.sb.WriteString("(")
				r.render(it.Key, kp)
				r.sb.WriteString(")")
			}
			r.sb.WriteString(" = ")
			r.render(it.Val, sub(fmt.Sprintf("items.%d.val", i+1)))
		}
		r.sb.WriteString(r.sp() + "}")
	case "tmpl":
		r.sb.WriteString("\"")
		for i, p := range e.Es {
			pp := sub(fmt.Sprintf("es.%d", i+1))
			if p.K == "text" {
				r.ext[pp] = &ExprExt{Kind: "text", Full: [2]int{r.sb.Len(), r.sb.Len() + len(fmt.Sprint(p.V))}}
				r.sb.WriteString(fmt.Sprint(p.V))
			} else {
				r.sb.WriteString("${")
				r.render(p, pp)
				r.sb.WriteString("}")
			}
		}
		r.sb.WriteString("\"")
	case "bin":
		r.operand(e.L, sub("l"))
		r.sb.WriteString(" " + e.Op + " ")
		r.operand(e.R, sub("r"))
	case "un":
		r.sb.WriteString(e.Op)
		r.operand(e.E, sub("e"))
	case "cond":
		r.render(e.C, sub("c"))
		r.sb.WriteString(" ? ")
		r.render(e.Tt, sub("tt"))
		r.sb.WriteString(" : ")
		r.render(e.Ff, sub("ff"))
	case "call":
		x.Name = [2]int{r.sb.Len(), r.sb.Len() + len(e.Fn)}
		r.sb.WriteString(e.Fn + "(")
		for i, a := range e.Es {
			if i > 0 {
				r.sb.WriteString("," + r.sp())
			}
			r.render(a, sub(fmt.Sprintf("es.%d", i+1)))
		}
		r.sb.WriteString(")")
	case "paren":
		r.sb.WriteString("(")
		r.render(e.E, sub("e"))
		r.sb.WriteString(")")
	case "index":
		r.render(e.E, sub("e"))
		r.sb.WriteString("[")
		r.render(e.Key, sub("key"))
		r.sb.WriteString("]")
	case "splat":
		r.render(e.E, sub("e"))
		r.sb.WriteString("[*][")
		r.render(e.Key, sub("key"))
		r.sb.WriteString("]")
	case "for":
		r.sb.WriteString("[for x in ")
		r.render(e.Coll, sub("coll"))
		r.sb.WriteString(" : ")
		r.render(e.Body, sub("body"))
		if e.C != nil {
			r.sb.WriteString(" if ")
			r.render(e.C, sub("c"))
		}
		r.sb.WriteString("]")
	default:
		r.sb.WriteString("null")
	}
	x.Full[1] = r.sb.Len()
}

// operand: compound operands are parenthesised in the text (the abstract tree has no node for these parentheses)
func (r *exprRenderer) operand(e *AExpr, path string) {
	if e.K == "bin" || e.K == "cond" || e.K == "un" {
		r.sb.WriteString("(")
		r.render(e, path)
		r.sb.WriteString(")")
		return
	}
	r.render(e, path)
}

// RenderExpr appends the expression to sb and returns the extents of its nodes.
func RenderExpr(sb *strings.Builder, e *AExpr, style int) map[string]*ExprExt {
	r := &exprRenderer{sb: sb, ext: map[string]*ExprExt{}, style: style}
	r.render(e, "")
	return r.ext
}
