package main

// Driving the real library: an in-memory PathReader, every entry point
// wrapped in recover(), results projected to observations.

import (
	"context"
	"fmt"
	"os"
	"runtime/debug"
	"sort"
	"strings"
	"sync/atomic"
	"time"

	"github.com/hashicorp/hcl-lang/decoder"
	"github.com/hashicorp/hcl-lang/lang"
	"github.com/hashicorp/hcl-lang/reference"
	"github.com/hashicorp/hcl-lang/validator"
	"github.com/hashicorp/hcl/v2"
	"github.com/hashicorp/hcl/v2/hclsyntax"
	"github.com/hashicorp/hcl/v2/json"
)

// ---------------------------------------------------------------- reader

// Path keys used by the harness: "dir" (default language id) or "dir#langid".
type Reader struct {
	Order   []string
	Ctxs    map[string]*decoder.PathContext
	Failing map[string]bool
	LangID  string
}

func (r *Reader) toPath(key string) lang.Path {
	if i := strings.Index(key, "#"); i >= 0 {
		return lang.Path{Path: key[:i], LanguageID: key[i+1:]}
	}
	return lang.Path{Path: key, LanguageID: r.LangID}
}

func (r *Reader) keyOf(p lang.Path) string {
	if p.LanguageID == r.LangID || p.LanguageID == "" {
		return p.Path
	}
	return p.Path + "#" + p.LanguageID
}

func (r *Reader) Paths(ctx context.Context) []lang.Path {
	ps := make([]lang.Path, 0, len(r.Order))
	for _, p := range r.Order {
		ps = append(ps, r.toPath(p))
	}
	return ps
}

func (r *Reader) PathContext(p lang.Path) (*decoder.PathContext, error) {
	k := r.keyOf(p)
	if r.Failing[k] {
		return nil, fmt.Errorf("path %q cannot be read", k)
	}
	c, ok := r.Ctxs[k]
	if !ok {
		return nil, fmt.Errorf("path %q not found", k)
	}
	return c, nil
}

func stockValidators() []validator.Validator {
	return []validator.Validator{
		validator.BlockLabelsLength{},
		validator.DeprecatedAttribute{},
		validator.DeprecatedBlock{},
		validator.MaxBlocks{},
		validator.MinBlocks{},
		validator.MissingRequiredAttribute{},
		validator.UnexpectedAttribute{},
		validator.UnexpectedBlock{},
	}
}

func parseFile(name string, src []byte) *hcl.File {
	var f *hcl.File
	if strings.HasSuffix(name, ".json") {
		f, _ = json.Parse(src, name)
	} else {
		f, _ = hclsyntax.ParseConfig(src, name, hcl.InitialPos)
	}
	return f
}

// newDecCtx: the decoder context every harness decoder gets: UTM parameters on, so that the URL of a hover and of a
// documentation link to the same address differ (as a language server configures it)
func newDecCtx() decoder.DecoderContext {
	c := decoder.NewDecoderContext()
	c.UtmSource = "verif"
	c.UtmMedium = "hx"
	c.UseUtmContent = true
	return c
}

// Env is one language-server "world state": a reader with one or more paths.
type Env struct {
	R   *Reader
	Dec *decoder.Decoder
}

func newEnv(w *World, path string) *Env {
	r := &Reader{Ctxs: map[string]*decoder.PathContext{}, Failing: map[string]bool{}, LangID: "tf"}
	e := &Env{R: r}
	e.AddPath(w, path)
	for _, pk := range sortedPeerKeys(w) {
		e.AddPath(w.Peers[pk], pk)
	}
	for _, u := range w.Unreadable {
		r.Failing[u] = true
	}
	e.Dec = decoder.NewDecoder(r)
	e.Dec.SetContext(newDecCtx())
	return e
}

func (e *Env) AddPath(w *World, path string) {
	pc := &decoder.PathContext{
		Schema:           w.Schema,
		Files:            map[string]*hcl.File{},
		Functions:        w.Funcs,
		Validators:       stockValidators(),
		ReferenceTargets: reference.Targets{},
		ReferenceOrigins: reference.Origins{},
	}
	for n, src := range w.Docs {
		if f := parseFile(n, []byte(src)); f != nil {
			pc.Files[n] = f
		}
	}
	e.R.Ctxs[path] = pc
	e.R.Order = append(e.R.Order, path)
	sort.Strings(e.R.Order)
}

func sortedPeerKeys(w *World) []string {
	ks := []string{}
	for k := range w.Peers {
		ks = append(ks, k)
	}
	sort.Strings(ks)
	return ks
}

func (e *Env) P(path string) lang.Path { return e.R.toPath(path) }

// SetFile replaces the content of one file; returns false when the parser yields no file.
func (e *Env) SetFile(path, name string, src []byte) bool {
	f := parseFile(name, src)
	if f == nil || f.Body == nil {
		delete(e.R.Ctxs[path].Files, name)
		return false
	}
	e.R.Ctxs[path].Files[name] = f
	return true
}

// ---------------------------------------------------------------- outcomes

type Outcome struct {
	Status string // ok | error | panic
	Err    string
	Site   string // first hcl-lang frame of a panic
	Class  string // panic class
	Value  interface{}
}

// call watchdog: a worker publishes what it is doing; a monitor goroutine
// aborts the process with a "hang" record when one call exceeds the budget.
type watch struct {
	started atomic.Int64
	desc    atomic.Value
}

var watches []*watch
var hangFile string

func newWatch() *watch {
	w := &watch{}
	watches = append(watches, w)
	return w
}

func startWatchdog(budget time.Duration) {
	go func() {
		for {
			time.Sleep(200 * time.Millisecond)
			now := time.Now().UnixNano()
			for _, w := range watches {
				st := w.started.Load()
				if st != 0 && now-st > int64(budget) {
					d, _ := w.desc.Load().(string)
					msg := fmt.Sprintf("{\"hang\":%q}\n", d)
					if hangFile != "" {
						os.WriteFile(hangFile, []byte(msg), 0o644)
					}
					fmt.Fprintf(os.Stderr, "HANG %s\n", d)
					os.Exit(3)
				}
			}
		}
	}()
}

func panicClass(v interface{}) string {
	s := fmt.Sprint(v)
	switch {
	case strings.Contains(s, "slice bounds out of range"):
		return "slice bounds"
	case strings.Contains(s, "index out of range"):
		return "index out of range"
	case strings.Contains(s, "nil pointer dereference"):
		return "nil dereference"
	case strings.Contains(s, "nil map"):
		return "nil map write"
	case strings.Contains(s, "interface conversion"):
		return "interface conversion"
	}
	if len(s) > 60 {
		s = s[:60]
	}
	return s
}

func panicSite(stack string) string {
	lines := strings.Split(stack, "\n")
	for _, l := range lines {
		l = strings.TrimSpace(l)
		if strings.HasPrefix(l, "github.com/hashicorp/hcl-lang/") {
			if i := strings.LastIndex(l, "("); i > 0 {
				l = l[:i]
			}
			return strings.TrimPrefix(l, "github.com/hashicorp/hcl-lang/")
		}
	}
	for _, l := range lines {
		l = strings.TrimSpace(l)
		if strings.HasPrefix(l, "github.com/") && !strings.Contains(l, "verif/harness") {
			if i := strings.LastIndex(l, "("); i > 0 {
				l = l[:i]
			}
			return l
		}
	}
	return "?"
}

func guard(w *watch, desc string, f func() (interface{}, error)) (out Outcome) {
	if w != nil {
		w.desc.Store(desc)
		w.started.Store(time.Now().UnixNano())
		defer w.started.Store(0)
	}
	defer func() {
		if r := recover(); r != nil {
			out = Outcome{Status: "panic", Err: fmt.Sprint(r), Site: panicSite(string(debug.Stack())), Class: panicClass(r)}
		}
	}()
	v, err := f()
	if err != nil {
		return Outcome{Status: "error", Err: err.Error(), Value: v}
	}
	return Outcome{Status: "ok", Value: v}
}

// ---------------------------------------------------------------- queries

var positional = []string{"completion", "hover", "signature", "gotodef", "findrefs"}
var fileLevel = []string{"tokens", "symbols", "links", "validatefile"}
var pathLevel = []string{"targets", "origins", "validate", "writeonly", "wsymbols"}

type Q struct {
	Kind    string
	Path    string
	File    string
	Pos     hcl.Pos
	Prefill bool
	Query   string // workspace symbol query
}

func (q Q) String() string {
	return fmt.Sprintf("%s %s/%s@%d prefill=%v q=%q", q.Kind, q.Path, q.File, q.Pos.Byte, q.Prefill, q.Query)
}

// Run executes one query on a (possibly fresh) decoder.
func (e *Env) Run(w *watch, q Q) Outcome {
	return e.RunOn(w, e.Dec, q)
}

func (e *Env) RunOn(w *watch, dec *decoder.Decoder, q Q) Outcome {
	ctx := context.Background()
	return guard(w, q.String(), func() (interface{}, error) {
		switch q.Kind {
		case "wsymbols":
			return dec.Symbols(ctx, q.Query)
		case "gotodef":
			return dec.ReferenceTargetsForOriginAtPos(e.P(q.Path), q.File, q.Pos)
		case "findrefs":
			return dec.ReferenceOriginsTargetingPos(e.P(q.Path), q.File, q.Pos), nil
		}
		pd, err := dec.Path(e.P(q.Path))
		if err != nil {
			return nil, err
		}
		pd.PrefillRequiredFields = q.Prefill
		switch q.Kind {
		case "completion":
			return pd.CompletionAtPos(ctx, q.File, q.Pos)
		case "hover":
			return pd.HoverAtPos(ctx, q.File, q.Pos)
		case "signature":
			return pd.SignatureAtPos(q.File, q.Pos)
		case "tokens":
			return pd.SemanticTokensInFile(ctx, q.File)
		case "symbols":
			return pd.SymbolsInFile(q.File)
		case "links":
			return pd.LinksInFile(q.File)
		case "validatefile":
			return pd.ValidateFile(ctx, q.File)
		case "validate":
			return pd.Validate(ctx)
		case "targets":
			return pd.CollectReferenceTargets()
		case "origins":
			return pd.CollectReferenceOrigins()
		case "writeonly":
			return pd.CollectWriteOnlyAttributes()
		}
		return nil, fmt.Errorf("unknown query kind %q", q.Kind)
	})
}

// Recollect stores freshly collected targets and origins in the path context
// (what a language server does after every change). Panics are reported.
func (e *Env) Recollect(w *watch, path string) (tOut, oOut Outcome) {
	pc := e.R.Ctxs[path]
	pc.ReferenceTargets = reference.Targets{}
	pc.ReferenceOrigins = reference.Origins{}
	tOut = e.Run(w, Q{Kind: "targets", Path: path})
	if t, ok := tOut.Value.(reference.Targets); ok && tOut.Status == "ok" {
		pc.ReferenceTargets = t
	}
	oOut = e.Run(w, Q{Kind: "origins", Path: path})
	if o, ok := oOut.Value.(reference.Origins); ok && oOut.Status == "ok" {
		pc.ReferenceOrigins = o
	}
	return
}

var resultOpts = canonOpts{
	SkipFields: map[string]bool{
		"DirectOrigin.TargetRange": true, // supplied by the caller through the schema
		"Target.Range":             true, // schema.Target.Range, likewise
	},
	MultisetTypes: map[string]bool{
		"*hcl.Diagnostic": true,
		// not among the results whose order C03 fixes (collected from a map of attributes)
		"decoder.WriteOnlyAttribute": true,
	},
	QueryPathFields: map[string]bool{
		"ReferenceTarget.OriginRange": true,
	},
}

// observe canonicalises an outcome: skeleton digest and ranges.
func observe(o Outcome) (skel string, ranges []RangeRec) {
	if o.Status == "panic" {
		return "panic", nil
	}
	s, r := canonValue(o.Value, resultOpts)
	return o.Status + "|" + s, r
}
