package main

// Direction A for ValComp.tla (C08): value completion at the end of a typed prefix.

import (
	"bufio"
	"encoding/json"
	"flag"
	"fmt"
	"os"
	"strings"
	"sync"
	"time"

	"github.com/hashicorp/hcl-lang/decoder"
	"github.com/hashicorp/hcl-lang/lang"
	"github.com/hashicorp/hcl-lang/reference"
	"github.com/hashicorp/hcl-lang/schema"
	"github.com/zclconf/go-cty/cty"
	"github.com/zclconf/go-cty/cty/convert"
	"github.com/zclconf/go-cty/cty/function"
)

func init() { commands["valcomp"] = cmdValComp }

type VCPlace struct {
	Level int  `json:"level"`
	Self  bool `json:"self"`
	InLoc bool `json:"inloc"`
}
type VCCase struct {
	Cons  *ECons  `json:"cons"`
	Typed string  `json:"typed"`
	Place VCPlace `json:"place"`
	Form  string  `json:"form"` // expression form the cursor is inside ("plain" = the value itself)
	Exp   string  `json:"exp"`  // type expected at the cursor (ValComp!ExpType)
}

func vcExpected(c *ECons) cty.Type {
	if c.K == "kw" {
		return cty.DynamicPseudoType
	}
	return anyType(c.T)
}

func vcCons(c *ECons) schema.Constraint {
	switch c.K {
	case "any":
		return schema.AnyExpression{OfType: anyType(c.T)}
	case "ref":
		return schema.Reference{OfType: anyType(c.T)}
	case "lit":
		return schema.LiteralType{Type: anyType(c.T)}
	case "kw":
		return schema.Keyword{Keyword: "kw"}
	case "listref":
		return schema.List{Elem: schema.Reference{OfType: anyType(c.T)}}
	case "tup2":
		return schema.Tuple{Elems: []schema.Constraint{schema.Reference{OfType: cty.String}, schema.Reference{OfType: anyType(c.T)}}}
	case "setany":
		return schema.Set{Elem: schema.AnyExpression{OfType: anyType(c.T)}}
	}
	return schema.AnyExpression{OfType: cty.DynamicPseudoType}
}

func vcFuncs() map[string]schema.FunctionSignature {
	fs := stdFuncs()
	full := cty.Object(map[string]cty.Type{"k": cty.String, "n": cty.Number})
	fs["mk_full"] = schema.FunctionSignature{ReturnType: full}
	fs["mk_part"] = schema.FunctionSignature{ReturnType: cty.Object(map[string]cty.Type{"k": cty.String})}
	fs["mk_more"] = schema.FunctionSignature{ReturnType: cty.Object(map[string]cty.Type{"k": cty.String, "n": cty.Number, "z": cty.Bool})}
	fs["mk_any"] = schema.FunctionSignature{ReturnType: cty.DynamicPseudoType, Params: []function.Parameter{{Name: "x", Type: cty.String}}}
	return fs
}

// declared types of the fixed declarations (what the collected targets carry) are read from the collected targets themselves
func declTypes(ts reference.Targets, pos lang.Address, out map[string]cty.Type, selfOK bool) {
	for _, t := range ts {
		if len(t.Addr) > 0 {
			out[addrText(t.Addr)] = t.Type
		}
		if len(t.LocalAddr) > 0 {
			out[addrText(t.LocalAddr)] = t.Type
		}
		declTypes(t.NestedTargets, pos, out, selfOK)
	}
}

func addrText(a lang.Address) string {
	s := ""
	for i, st := range a {
		switch x := st.(type) {
		case lang.RootStep:
			s += x.Name
		case lang.AttrStep:
			s += "." + x.Name
		case lang.IndexStep:
			if x.Key.Type() == cty.Number {
				f, _ := x.Key.AsBigFloat().Int64()
				s += fmt.Sprintf("[%d]", f)
			} else {
				s += fmt.Sprintf("[%q]", x.Key.AsString())
			}
		}
		_ = i
	}
	return s
}

func runVCCase(wt *watch, c *VCCase, idx int) Event {
	ec := &ExprCase{Cons: &ECons{K: "any", T: "dynamic"}, Level: c.Place.Level, Flags: Seq[bool]{false, c.Place.Self, false}}
	s := exprSchema(ec)
	cons := vcCons(c.Cons)
	s.Attributes["v"].Constraint = cons
	s.Blocks["b"].Body.Attributes["v"].Constraint = cons
	s.Blocks["c"] = &schema.BlockSchema{
		Labels:  []*schema.LabelSchema{{Name: "name"}},
		Address: &schema.BlockAddrSchema{Steps: schema.Address{schema.StaticStep{Name: "c"}, schema.LabelStep{Index: 0}}, ScopeId: "cblk", AsReference: true, BodyAsData: true, InferBody: true, BodySelfRef: true},
		Body: &schema.BodySchema{Extensions: &schema.BodyExtensions{SelfRefs: true}, Attributes: map[string]*schema.AttributeSchema{
			"tags": {IsOptional: true, Constraint: schema.AnyExpression{OfType: cty.List(cty.String)}},
			"v":    {IsOptional: true, Constraint: cons}}},
	}
	s.Blocks["d"] = &schema.BlockSchema{
		Labels:  []*schema.LabelSchema{{Name: "name"}},
		Address: &schema.BlockAddrSchema{Steps: schema.Address{schema.StaticStep{Name: "d"}, schema.LabelStep{Index: 0}}, ScopeId: "dblk", AsReference: true, BodyAsData: true, InferBody: true},
		Body: &schema.BodySchema{Attributes: map[string]*schema.AttributeSchema{
			"tags": {IsOptional: true, Constraint: schema.AnyExpression{OfType: cty.List(cty.String)}}},
			Blocks: map[string]*schema.BlockSchema{"inner": {Body: &schema.BodySchema{Attributes: map[string]*schema.AttributeSchema{
				"v": {IsOptional: true, Constraint: cons}}}}}},
	}
	var sb strings.Builder
	edited := ""
	if c.Place.InLoc {
		// the attribute being edited is itself an addressable declaration of block loc
		sb.WriteString(strings.TrimSuffix(locDecl, "}\n"))
		sb.WriteString("  x = ")
		edited = "loc.x"
	} else {
		sb.WriteString(locDecl)
		if c.Place.Level == 1 {
			sb.WriteString(bDecl)
			sb.WriteString("  ")
		}
		if c.Place.Level == 2 {
			sb.WriteString("c \"one\" {\n  tags = [\"t1\", \"t2\"]\n}\nc \"two\" {\n  ")
		}
		if c.Place.Level == 3 {
			sb.WriteString("d \"one\" {\n  tags = [\"t1\", \"t2\"]\n}\nd \"two\" {\n  tags = [\"u1\"]\n  inner {\n    ")
		}
		sb.WriteString("v = ")
	}
	open := ""
	if c.Cons.K == "listref" || c.Cons.K == "setany" {
		open = "["
	}
	if c.Cons.K == "tup2" {
		open = "[loc.s, "
	}
	pre, post := "", ""
	switch c.Form {
	case "tmpl":
		pre, post = "\"a-${", "}\""
	case "binr":
		pre = "1 + "
	case "cmpr":
		pre = "1 < "
	case "cmpl":
		post = " >= 1"
	case "eqr":
		pre = "loc.l == "
	case "condt":
		pre, post = "true ? ", " : null"
	case "condf":
		pre = "true ? null : "
	case "arg":
		pre, post = "upper(", ")"
	case "paren":
		pre, post = "(", ")"
	case "forcoll":
		pre, post = "[for x in ", " : x]"
	case "forbody":
		pre, post = "[for x in loc.l : ", "]"
	}
	sb.WriteString(open + pre + c.Typed)
	cursor := sb.Len()
	sb.WriteString(post)
	if open != "" {
		sb.WriteString("]")
	}
	sb.WriteString("\n}\n")
	if c.Place.Level == 3 {
		sb.WriteString("}\n")
	}
	if !c.Place.InLoc && c.Place.Level == 0 {
		// nothing to close at the root: drop the brace
		str := sb.String()
		sb.Reset()
		sb.WriteString(strings.TrimSuffix(str, "}\n"))
	}
	src := []byte(sb.String())
	env := envFor(s, src)
	if c.Place.Level == 4 {
		// a second file whose block (with a count) spans the byte offsets of everything in t.tf
		s.Blocks["e"] = &schema.BlockSchema{
			Labels:  []*schema.LabelSchema{{Name: "name"}},
			Address: &schema.BlockAddrSchema{Steps: schema.Address{schema.StaticStep{Name: "e"}, schema.LabelStep{Index: 0}}, ScopeId: "eblk", AsReference: true},
			Body: &schema.BodySchema{Extensions: &schema.BodyExtensions{Count: true}, Attributes: map[string]*schema.AttributeSchema{
				"pad": {IsOptional: true, Constraint: schema.LiteralType{Type: cty.String}}}},
		}
		other := "e \"blk\" {\n  count = 4\n  pad = \"" + strings.Repeat("x", 2*len(src)+64) + "\"\n}\n"
		env.R.Ctxs["p1"].Files["u.tf"] = parseFile("u.tf", []byte(other))
	}
	env.R.Ctxs["p1"].Functions = vcFuncs()
	env.Recollect(wt, "p1")
	types := map[string]cty.Type{}
	declTypes(env.R.Ctxs["p1"].ReferenceTargets, nil, types, true)
	exp := vcExpected(c.Cons)
	if c.Form != "" && c.Form != "plain" {
		exp = anyType(c.Exp)
	}
	conv := map[string]bool{}
	for a, t := range types {
		ok := false
		if t != cty.NilType {
			_, err := convert.Convert(cty.UnknownVal(t), exp)
			ok = err == nil
		}
		conv[a] = ok
	}
	fnconv := map[string]bool{}
	for n, f := range vcFuncs() {
		_, err := convert.Convert(cty.UnknownVal(f.ReturnType), exp)
		fnconv[n] = err == nil
	}
	pos := PosAt(src, cursor)
	o := env.Run(wt, Q{Kind: "completion", Path: "p1", File: "t.tf", Pos: pos})
	cands := [][]interface{}{}
	if cl, ok := o.Value.(lang.Candidates); ok {
		for _, cd := range cl.List {
			kind := "other"
			switch cd.Kind {
			case lang.ReferenceCandidateKind:
				kind = "reference"
			case lang.FunctionCandidateKind:
				kind = "function"
			case lang.BoolCandidateKind:
				kind = "bool"
			case lang.KeywordCandidateKind:
				kind = "keyword"
			}
			rt := "n/a"
			if kind == "reference" && conv[cd.Label] {
				// accept the candidate and ask go-to-definition at the inserted text
				te := cd.TextEdit
				if te.Range.Start.Byte >= 0 && te.Range.End.Byte <= len(src) && te.Range.Start.Byte <= te.Range.End.Byte {
					ns := append(append(append([]byte{}, src[:te.Range.Start.Byte]...), te.NewText...), src[te.Range.End.Byte:]...)
					env2 := envFor(s, ns)
					env2.R.Ctxs["p1"].Functions = vcFuncs()
					env2.Recollect(wt, "p1")
					g := env2.Run(wt, Q{Kind: "gotodef", Path: "p1", File: "t.tf", Pos: PosAt(ns, te.Range.Start.Byte+1)})
					rt = "unresolved"
					if rts, ok := g.Value.(decoder.ReferenceTargets); ok {
						for _, t := range rts {
							want := types[cd.Label]
							_ = want
							if t.Range.Filename == "t.tf" {
								rt = "resolved"
							}
						}
					}
				}
			}
			cands = append(cands, []interface{}{cd.Label, kind, rt})
		}
	}
	return Event{"ev": "ValComp", "case": idx, "layout": 0, "cons": c.Cons, "typed": c.Typed, "place": c.Place, "form": formOf(c), "exp": c.Exp, "edited": edited, "status": o.Status,
		"cands": cands, "conv": conv, "fnconv": fnconv}
}

func formOf(c *VCCase) string {
	if c.Form == "" {
		return "plain"
	}
	return c.Form
}

func cmdValComp(fs *flag.FlagSet) {
	in := fs.String("cases", "", "NDJSON cases from TLC")
	out := fs.String("out", "vc", "output prefix")
	fs.Int64("seed", 1, "seed")
	shards := fs.Int("shards", 8, "shards")
	fs.Parse(os.Args[2:])
	startWatchdog(60 * time.Second)
	f, err := os.Open(*in)
	if err != nil {
		fatal("open: %v", err)
	}
	var cases []*VCCase
	sc := bufio.NewScanner(f)
	sc.Buffer(make([]byte, 1<<20), 1<<24)
	for sc.Scan() {
		var c VCCase
		if err := json.Unmarshal(sc.Bytes(), &c); err != nil {
			fatal("bad case: %v", err)
		}
		cases = append(cases, &c)
	}
	f.Close()
	var wg sync.WaitGroup
	counts := make([]int, *shards)
	for s := 0; s < *shards; s++ {
		wg.Add(1)
		go func(s int) {
			defer wg.Done()
			wt := newWatch()
			tw := newTraceWriter(fmt.Sprintf("%s.%03d.ndjson", *out, s))
			defer tw.Close()
			for i := s; i < len(cases); i += *shards {
				tw.Emit(runVCCase(wt, cases[i], i))
				counts[s]++
			}
		}(s)
	}
	wg.Wait()
	n := 0
	for _, c := range counts {
		n += c
	}
	fmt.Printf("{\"cases\":%d,\"events\":%d}\n", len(cases), n)
}
