package main

// Curated "worlds": a schema, function signatures and seed documents.
// They are the concrete side of SchemaZoo / SeedDocs of the specification:
// every world is accepted by schema.Validate() (checked at start-up).

import (
	"fmt"
	"sort"

	"github.com/hashicorp/hcl-lang/lang"
	"github.com/hashicorp/hcl-lang/schema"
	"github.com/hashicorp/hcl/v2"
	"github.com/hashicorp/hcl/v2/hclsyntax"
	"github.com/zclconf/go-cty/cty"
	"github.com/zclconf/go-cty/cty/function"
)

type World struct {
	Name   string
	Schema *schema.BodySchema
	Funcs  map[string]schema.FunctionSignature
	// Docs: file name -> content (native syntax unless name ends in .json)
	Docs map[string]string
	// Hostile worlds are valid for the schema package but unusual.
	Hostile bool
	// Peers: further paths of the same workspace (path key -> world); the world itself is path "p1"
	Peers map[string]*World
	// Unreadable: peer path keys whose PathContext cannot be read
	Unreadable []string
}

func md(s string) lang.MarkupContent { return lang.Markdown(s) }

func stdFuncs() map[string]schema.FunctionSignature {
	return map[string]schema.FunctionSignature{
		"upper": {
			Description: "upper converts to upper case",
			ReturnType:  cty.String,
			Params:      []function.Parameter{{Name: "str", Type: cty.String, Description: "input"}},
		},
		"max": {
			Description: "max of numbers",
			ReturnType:  cty.Number,
			VarParam:    &function.Parameter{Name: "numbers", Type: cty.Number},
		},
		"timestamp": {
			Description: "now",
			ReturnType:  cty.String,
		},
		"lookup": {
			Description: "lookup in map",
			ReturnType:  cty.DynamicPseudoType,
			Params: []function.Parameter{
				{Name: "inputMap", Type: cty.DynamicPseudoType},
				{Name: "key", Type: cty.String},
			},
			VarParam: &function.Parameter{Name: "default", Type: cty.DynamicPseudoType},
		},
		"join": {
			Description: "join strings",
			ReturnType:  cty.String,
			Params:      []function.Parameter{{Name: "separator", Type: cty.String}},
			VarParam:    &function.Parameter{Name: "lists", Type: cty.List(cty.String)},
		},
		"tolist": {
			Description: "to list",
			ReturnType:  cty.List(cty.DynamicPseudoType),
			Params:      []function.Parameter{{Name: "v", Type: cty.DynamicPseudoType}},
		},
		"element": {
			Description: "element of list",
			ReturnType:  cty.DynamicPseudoType,
			Params: []function.Parameter{
				{Name: "list", Type: cty.DynamicPseudoType},
				{Name: "index", Type: cty.Number},
			},
		},
		"provider::aws::arn_parse": {
			Description: "namespaced",
			ReturnType:  cty.String,
			Params:      []function.Parameter{{Name: "arn", Type: cty.String}},
		},
	}
}

func labelDep(idx int, v string) schema.SchemaKey {
	return schema.NewSchemaKey(schema.DependencyKeys{Labels: []schema.LabelDependent{{Index: idx, Value: v}}})
}

func attrDepStr(name, v string) schema.SchemaKey {
	return schema.NewSchemaKey(schema.DependencyKeys{Attributes: []schema.AttributeDependent{
		{Name: name, Expr: schema.ExpressionValue{Static: cty.StringVal(v)}}}})
}

// instanceBody is the dependent body of resource "aws_instance".
func instanceBody() *schema.BodySchema {
	return &schema.BodySchema{
		Detail:      "instance",
		Description: md("An instance body"),
		DocsLink:    &schema.DocsLink{URL: "https://example.com/docs/aws_instance", Tooltip: "aws_instance docs"},
		HoverURL:    "https://example.com/hover/aws_instance",
		Attributes: map[string]*schema.AttributeSchema{
			"ami":           {IsRequired: true, Constraint: schema.AnyExpression{OfType: cty.String}, Description: md("AMI id")},
			"instance_type": {IsOptional: true, Constraint: schema.AnyExpression{OfType: cty.String}, Description: md("type of instance")},
			"cpu_count":     {IsOptional: true, Constraint: schema.AnyExpression{OfType: cty.Number}},
			"monitoring":    {IsOptional: true, Constraint: schema.AnyExpression{OfType: cty.Bool}},
			"tags":          {IsOptional: true, Constraint: schema.AnyExpression{OfType: cty.Map(cty.String)}},
			"security_ids":  {IsOptional: true, Constraint: schema.AnyExpression{OfType: cty.List(cty.String)}},
			"subnets":       {IsOptional: true, Constraint: schema.AnyExpression{OfType: cty.Set(cty.String)}},
			"placement": {IsOptional: true, Constraint: schema.AnyExpression{OfType: cty.Object(map[string]cty.Type{
				"zone": cty.String, "spread": cty.Number})}},
			"pair":      {IsOptional: true, Constraint: schema.AnyExpression{OfType: cty.Tuple([]cty.Type{cty.String, cty.Number})}},
			"anything":  {IsOptional: true, Constraint: schema.AnyExpression{OfType: cty.DynamicPseudoType}},
			"arn":       {IsComputed: true, Constraint: schema.AnyExpression{OfType: cty.String}},
			"id":        {IsComputed: true, IsOptional: true, Constraint: schema.AnyExpression{OfType: cty.String}},
			"old_field": {IsOptional: true, IsDeprecated: true, Constraint: schema.LiteralType{Type: cty.String}},
			"secret_wo": {IsOptional: true, IsWriteOnly: true, IsSensitive: true, Constraint: schema.AnyExpression{OfType: cty.String}},
		},
		Blocks: map[string]*schema.BlockSchema{
			"ebs_block_device": {
				Type:        schema.BlockTypeList,
				Description: md("EBS device"),
				Body: &schema.BodySchema{
					Attributes: map[string]*schema.AttributeSchema{
						"device_name": {IsRequired: true, Constraint: schema.AnyExpression{OfType: cty.String}},
						"size":        {IsOptional: true, Constraint: schema.AnyExpression{OfType: cty.Number}},
					},
				},
			},
			"network": {
				Type:     schema.BlockTypeObject,
				MaxItems: 1,
				Body: &schema.BodySchema{
					Attributes: map[string]*schema.AttributeSchema{
						"cidr": {IsOptional: true, Constraint: schema.AnyExpression{OfType: cty.String}},
					},
					Blocks: map[string]*schema.BlockSchema{
						"rule": {
							Type: schema.BlockTypeSet,
							Body: &schema.BodySchema{
								Attributes: map[string]*schema.AttributeSchema{
									"port": {IsRequired: true, Constraint: schema.AnyExpression{OfType: cty.Number}},
								},
							},
						},
					},
				},
			},
			"volume": {
				Type:   schema.BlockTypeMap,
				Labels: []*schema.LabelSchema{{Name: "key"}},
				Body: &schema.BodySchema{
					Attributes: map[string]*schema.AttributeSchema{
						"gb": {IsOptional: true, Constraint: schema.AnyExpression{OfType: cty.Number}},
					},
				},
			},
			"timeouts": {
				MinItems: 0, MaxItems: 1,
				IsDeprecated: true,
				Body: &schema.BodySchema{
					Attributes: map[string]*schema.AttributeSchema{
						"create": {IsOptional: true, Constraint: schema.LiteralType{Type: cty.String}},
					},
				},
			},
		},
	}
}

func bucketBody() *schema.BodySchema {
	return &schema.BodySchema{
		Detail: "bucket",
		// the same address is hover URL and documentation link (the two differ only in the utm_content the decoder adds)
		DocsLink: &schema.DocsLink{URL: "https://example.com/docs/aws_s3_bucket", Tooltip: "bucket docs"},
		HoverURL: "https://example.com/docs/aws_s3_bucket",
		Attributes: map[string]*schema.AttributeSchema{
			"bucket": {IsOptional: true, Constraint: schema.AnyExpression{OfType: cty.String}, Description: md("bucket name")},
			"acl": {IsOptional: true, Constraint: schema.OneOf{
				schema.LiteralValue{Value: cty.StringVal("private"), Description: md("private acl")},
				schema.LiteralValue{Value: cty.StringVal("public-read")},
				schema.LiteralValue{Value: cty.StringVal("log"), IsDeprecated: true},
			}},
			"versioning": {IsOptional: true, Constraint: schema.LiteralType{Type: cty.Bool}},
			"arn":        {IsComputed: true, Constraint: schema.AnyExpression{OfType: cty.String}},
		},
		Blocks: map[string]*schema.BlockSchema{
			"lifecycle_rule": {
				Type:     schema.BlockTypeList,
				MinItems: 1,
				Body: &schema.BodySchema{
					Attributes: map[string]*schema.AttributeSchema{
						"enabled": {IsRequired: true, Constraint: schema.LiteralType{Type: cty.Bool}},
						"days":    {IsOptional: true, Constraint: schema.LiteralType{Type: cty.Number}},
					},
				},
			},
		},
	}
}

func tfSchema() *schema.BodySchema {
	lifecycle := &schema.BlockSchema{
		Description:            md("lifecycle customisation"),
		MaxItems:               1,
		SemanticTokenModifiers: lang.SemanticTokenModifiers{"tf-lifecycle"},
		Body: &schema.BodySchema{
			Attributes: map[string]*schema.AttributeSchema{
				"create_before_destroy": {IsOptional: true, Constraint: schema.LiteralType{Type: cty.Bool}, SemanticTokenModifiers: lang.SemanticTokenModifiers{"m-cbd"}},
				"ignore_changes": {IsOptional: true, SemanticTokenModifiers: lang.SemanticTokenModifiers{"m-ic"}, Constraint: schema.OneOf{
					schema.Set{Elem: schema.Reference{OfScopeId: "resource"}},
					schema.Keyword{Keyword: "all", Description: md("ignore all")},
				}},
			},
			Blocks: map[string]*schema.BlockSchema{
				"precondition": {
					Body: &schema.BodySchema{
						Extensions: &schema.BodyExtensions{SelfRefs: true},
						Attributes: map[string]*schema.AttributeSchema{
							"condition":     {IsRequired: true, Constraint: schema.AnyExpression{OfType: cty.Bool}},
							"error_message": {IsRequired: true, Constraint: schema.AnyExpression{OfType: cty.String}},
						},
					},
				},
			},
		},
	}
	provisioner := &schema.BlockSchema{
		Labels: []*schema.LabelSchema{{Name: "type", IsDepKey: true, Completable: true, Description: md("provisioner type")}},
		Body: &schema.BodySchema{
			Extensions: &schema.BodyExtensions{SelfRefs: true},
			Attributes: map[string]*schema.AttributeSchema{
				"when": {IsOptional: true, Constraint: schema.OneOf{
					schema.Keyword{Keyword: "create"}, schema.Keyword{Keyword: "destroy"}}},
			},
		},
		DependentBody: map[schema.SchemaKey]*schema.BodySchema{
			labelDep(0, "local-exec"): {
				Attributes: map[string]*schema.AttributeSchema{
					"command":     {IsRequired: true, Constraint: schema.AnyExpression{OfType: cty.String}},
					"environment": {IsOptional: true, Constraint: schema.Map{Elem: schema.AnyExpression{OfType: cty.String}, Name: "map of env"}},
				},
			},
			labelDep(0, "file"): {
				Attributes: map[string]*schema.AttributeSchema{
					"source":      {IsOptional: true, Constraint: schema.AnyExpression{OfType: cty.String}},
					"destination": {IsRequired: true, Constraint: schema.AnyExpression{OfType: cty.String}},
				},
			},
		},
	}

	return &schema.BodySchema{
		Blocks: map[string]*schema.BlockSchema{
			"variable": {
				Description:            md("Input variable"),
				SemanticTokenModifiers: lang.SemanticTokenModifiers{lang.TokenModifierDependent},
				Labels:                 []*schema.LabelSchema{{Name: "name", Description: md("variable name"), SemanticTokenModifiers: lang.SemanticTokenModifiers{"hcl-name"}}},
				Address: &schema.BlockAddrSchema{
					Steps:        schema.Address{schema.StaticStep{Name: "var"}, schema.LabelStep{Index: 0}},
					FriendlyName: "variable",
					ScopeId:      "variable",
					AsReference:  true,
					AsTypeOf:     &schema.BlockAsTypeOf{AttributeExpr: "type"},
				},
				Body: &schema.BodySchema{
					Attributes: map[string]*schema.AttributeSchema{
						"type":        {IsOptional: true, Constraint: schema.TypeDeclaration{}, Description: md("type constraint")},
						"default":     {IsOptional: true, Constraint: schema.AnyExpression{OfType: cty.DynamicPseudoType}},
						"description": {IsOptional: true, Constraint: schema.LiteralType{Type: cty.String}, Description: md("what it is for")},
						"sensitive":   {IsOptional: true, Constraint: schema.LiteralType{Type: cty.Bool}},
						"nullable":    {IsOptional: true, Constraint: schema.LiteralType{Type: cty.Bool}, DefaultValue: schema.DefaultValue{Value: cty.True}},
					},
					Blocks: map[string]*schema.BlockSchema{
						"validation": {
							Body: &schema.BodySchema{
								Attributes: map[string]*schema.AttributeSchema{
									"condition":     {IsRequired: true, Constraint: schema.AnyExpression{OfType: cty.Bool}},
									"error_message": {IsRequired: true, Constraint: schema.AnyExpression{OfType: cty.String}},
								},
							},
						},
					},
				},
			},
			"locals": {
				Description: md("Local values"),
				Body: &schema.BodySchema{
					AnyAttribute: &schema.AttributeSchema{
						IsOptional: true,
						Address: &schema.AttributeAddrSchema{
							Steps:      schema.Address{schema.StaticStep{Name: "local"}, schema.AttrNameStep{}},
							ScopeId:    "local",
							AsExprType: true, AsReference: true,
						},
						Constraint: schema.AnyExpression{OfType: cty.DynamicPseudoType},
					},
				},
			},
			"output": {
				Labels: []*schema.LabelSchema{{Name: "name"}},
				Address: &schema.BlockAddrSchema{
					Steps:       schema.Address{schema.StaticStep{Name: "output"}, schema.LabelStep{Index: 0}},
					ScopeId:     "output",
					AsReference: true,
				},
				Body: &schema.BodySchema{
					Attributes: map[string]*schema.AttributeSchema{
						"value":       {IsRequired: true, Constraint: schema.AnyExpression{OfType: cty.DynamicPseudoType}},
						"description": {IsOptional: true, Constraint: schema.LiteralType{Type: cty.String}},
						"depends_on": {IsOptional: true, Constraint: schema.Set{Elem: schema.OneOf{
							schema.Reference{OfScopeId: "resource"}, schema.Reference{OfScopeId: "data"},
							schema.Reference{OfScopeId: "variable"}, schema.Reference{OfScopeId: "local"}}}},
						"sensitive": {IsOptional: true, Constraint: schema.LiteralType{Type: cty.Bool}},
					},
				},
			},
			"resource": {
				Description: md("A resource"),
				Labels: []*schema.LabelSchema{
					{Name: "type", IsDepKey: true, Completable: true, Description: md("resource type"), SemanticTokenModifiers: lang.SemanticTokenModifiers{"hcl-type"}},
					{Name: "name", Description: md("resource name"), SemanticTokenModifiers: lang.SemanticTokenModifiers{"hcl-name"}},
				},
				SemanticTokenModifiers: lang.SemanticTokenModifiers{"tf-resource", "tf-managed"},
				Address: &schema.BlockAddrSchema{
					Steps:                schema.Address{schema.LabelStep{Index: 0}, schema.LabelStep{Index: 1}},
					FriendlyName:         "resource",
					ScopeId:              "resource",
					AsReference:          true,
					DependentBodyAsData:  true,
					InferDependentBody:   true,
					DependentBodySelfRef: true,
				},
				Body: &schema.BodySchema{
					Extensions: &schema.BodyExtensions{Count: true, ForEach: true, DynamicBlocks: true},
					Attributes: map[string]*schema.AttributeSchema{
						"provider": {IsOptional: true, IsDepKey: true, Constraint: schema.Reference{OfScopeId: "provider"}, Description: md("provider ref")},
						"depends_on": {IsOptional: true, Constraint: schema.Set{Elem: schema.OneOf{
							schema.Reference{OfScopeId: "resource"}, schema.Reference{OfScopeId: "data"},
							schema.Reference{OfScopeId: "variable"}, schema.Reference{OfScopeId: "local"}}}},
					},
					Blocks: map[string]*schema.BlockSchema{
						"lifecycle":   lifecycle,
						"provisioner": provisioner,
					},
				},
				DependentBody: map[schema.SchemaKey]*schema.BodySchema{
					labelDep(0, "aws_instance"):  instanceBody(),
					labelDep(0, "aws_s3_bucket"): bucketBody(),
					// the provider-alias pattern: the same label value again, keyed additionally by an attribute, with another body
					schema.NewSchemaKey(schema.DependencyKeys{
						Labels: []schema.LabelDependent{{Index: 0, Value: "aws_s3_bucket"}},
						Attributes: []schema.AttributeDependent{{Name: "provider", Expr: schema.ExpressionValue{
							Address: lang.Address{lang.RootStep{Name: "aws"}, lang.AttrStep{Name: "east"}}}}},
					}): func() *schema.BodySchema {
						b := bucketBody()
						b.Detail = "bucket (east)"
						b.Description = md("A bucket body of the aliased provider")
						b.IsDeprecated = true
						b.Attributes["east_only"] = &schema.AttributeSchema{IsRequired: true, Constraint: schema.LiteralType{Type: cty.String}}
						return b
					}(),
					labelDep(0, "null_resource"): {
						Attributes: map[string]*schema.AttributeSchema{
							"triggers": {IsOptional: true, Constraint: schema.AnyExpression{OfType: cty.Map(cty.String)}},
							"id":       {IsComputed: true, Constraint: schema.AnyExpression{OfType: cty.String}},
						},
					},
				},
			},
			"data": {
				Labels: []*schema.LabelSchema{
					{Name: "type", IsDepKey: true, Completable: true},
					{Name: "name"},
				},
				Address: &schema.BlockAddrSchema{
					Steps:               schema.Address{schema.StaticStep{Name: "data"}, schema.LabelStep{Index: 0}, schema.LabelStep{Index: 1}},
					FriendlyName:        "data source",
					ScopeId:             "data",
					AsReference:         true,
					DependentBodyAsData: true,
					InferDependentBody:  true,
				},
				Body: &schema.BodySchema{
					Extensions: &schema.BodyExtensions{Count: true, ForEach: true},
					Attributes: map[string]*schema.AttributeSchema{
						"provider": {IsOptional: true, IsDepKey: true, Constraint: schema.Reference{OfScopeId: "provider"}},
					},
				},
				DependentBody: map[schema.SchemaKey]*schema.BodySchema{
					// two-level selection: the label selects a body that has a key attribute of its own
					labelDep(0, "remote_state"): {
						Detail: "remote state",
						Attributes: map[string]*schema.AttributeSchema{
							"backend":   {IsRequired: true, IsDepKey: true, Constraint: schema.LiteralType{Type: cty.String}, Description: md("backend type"), SemanticTokenModifiers: lang.SemanticTokenModifiers{"tf-backend"}},
							"workspace": {IsOptional: true, Constraint: schema.AnyExpression{OfType: cty.String}},
						},
					},
					schema.NewSchemaKey(schema.DependencyKeys{
						Labels:     []schema.LabelDependent{{Index: 0, Value: "remote_state"}},
						Attributes: []schema.AttributeDependent{{Name: "backend", Expr: schema.ExpressionValue{Static: cty.StringVal("s3")}}},
					}): {
						Detail:   "remote state (s3)",
						DocsLink: &schema.DocsLink{URL: "https://example.com/backends/s3"},
						Attributes: map[string]*schema.AttributeSchema{
							"backend":   {IsRequired: true, IsDepKey: true, Constraint: schema.LiteralType{Type: cty.String}},
							"workspace": {IsOptional: true, Constraint: schema.AnyExpression{OfType: cty.String}},
							"config": {IsOptional: true, SemanticTokenModifiers: lang.SemanticTokenModifiers{"tf-config"}, Constraint: schema.Object{Attributes: schema.ObjectAttributes{
								"bucket": {IsRequired: true, Constraint: schema.AnyExpression{OfType: cty.String}},
								"key":    {IsOptional: true, Constraint: schema.AnyExpression{OfType: cty.String}}}}},
						},
					},
					labelDep(0, "aws_ami"): {
						DocsLink: &schema.DocsLink{URL: "https://example.com/docs/d/aws_ami"},
						Attributes: map[string]*schema.AttributeSchema{
							"most_recent": {IsOptional: true, Constraint: schema.AnyExpression{OfType: cty.Bool}},
							"owners":      {IsOptional: true, Constraint: schema.AnyExpression{OfType: cty.List(cty.String)}},
							"id":          {IsComputed: true, Constraint: schema.AnyExpression{OfType: cty.String}},
						},
						Blocks: map[string]*schema.BlockSchema{
							"filter": {
								Type: schema.BlockTypeSet,
								Body: &schema.BodySchema{
									Attributes: map[string]*schema.AttributeSchema{
										"name":   {IsRequired: true, Constraint: schema.AnyExpression{OfType: cty.String}},
										"values": {IsRequired: true, Constraint: schema.AnyExpression{OfType: cty.List(cty.String)}},
									},
								},
							},
							// a second nested block type next to it, below a three-step address (data.<type>.<name>)
							"timeouts": {
								Type: schema.BlockTypeObject,
								Body: &schema.BodySchema{
									Attributes: map[string]*schema.AttributeSchema{
										"read": {IsOptional: true, Constraint: schema.AnyExpression{OfType: cty.String}},
									},
								},
							},
						},
					},
				},
			},
			"provider": {
				Labels: []*schema.LabelSchema{{Name: "name", IsDepKey: true, Completable: true}},
				Address: &schema.BlockAddrSchema{
					Steps: schema.Address{
						schema.LabelStep{Index: 0},
						schema.AttrValueStep{Name: "alias", IsOptional: true},
					},
					FriendlyName: "provider",
					ScopeId:      "provider",
					AsReference:  true,
				},
				Body: &schema.BodySchema{
					Attributes: map[string]*schema.AttributeSchema{
						"alias":   {IsOptional: true, Constraint: schema.LiteralType{Type: cty.String}},
						"version": {IsOptional: true, IsDeprecated: true, Constraint: schema.LiteralType{Type: cty.String}},
					},
				},
				DependentBody: map[schema.SchemaKey]*schema.BodySchema{
					labelDep(0, "aws"): {
						DocsLink: &schema.DocsLink{URL: "https://example.com/docs/providers/aws"},
						Attributes: map[string]*schema.AttributeSchema{
							"region": {IsOptional: true, Constraint: schema.AnyExpression{OfType: cty.String}},
						},
					},
				},
			},
			"module": {
				Labels: []*schema.LabelSchema{{Name: "name"}},
				Address: &schema.BlockAddrSchema{
					Steps:               schema.Address{schema.StaticStep{Name: "module"}, schema.LabelStep{Index: 0}},
					ScopeId:             "module",
					AsReference:         true,
					DependentBodyAsData: true, InferDependentBody: true,
				},
				Body: &schema.BodySchema{
					Extensions: &schema.BodyExtensions{Count: true, ForEach: true},
					// (the static body is what MergeBlockBodySchemas copies)
					TargetableAs: schema.Targetables{
						{Address: lang.Address{lang.RootStep{Name: "module"}, lang.AttrStep{Name: "anyobj"}}, ScopeId: "module", AsType: cty.Object(map[string]cty.Type{"id": cty.String}),
							NestedTargetables: schema.Targetables{
								{Address: lang.Address{lang.RootStep{Name: "module"}, lang.AttrStep{Name: "anyobj"}, lang.AttrStep{Name: "id"}}, ScopeId: "module", AsType: cty.String},
							}},
					},
					Attributes: map[string]*schema.AttributeSchema{
						"source":  {IsRequired: true, IsDepKey: true, Constraint: schema.LiteralType{Type: cty.String}, Description: md("module source")},
						"version": {IsOptional: true, Constraint: schema.LiteralType{Type: cty.String}},
						"providers": {IsOptional: true, Constraint: schema.Map{Name: "map of provider refs",
							Elem: schema.Reference{OfScopeId: "provider"}}},
					},
				},
				DependentBody: map[schema.SchemaKey]*schema.BodySchema{
					attrDepStr("source", "./net"): {
						DocsLink: &schema.DocsLink{URL: "https://example.com/modules/net"},
						Attributes: map[string]*schema.AttributeSchema{
							"cidr":  {IsRequired: true, Constraint: schema.AnyExpression{OfType: cty.String}},
							"zones": {IsOptional: true, Constraint: schema.AnyExpression{OfType: cty.List(cty.String)}},
						},
						TargetableAs: schema.Targetables{
							{Address: lang.Address{lang.RootStep{Name: "module"}, lang.AttrStep{Name: "netout"}}, ScopeId: "module", AsType: cty.String},
						},
					},
				},
			},
			"terraform": {
				MaxItems: 1,
				Body: &schema.BodySchema{
					Attributes: map[string]*schema.AttributeSchema{
						"required_version": {IsOptional: true, Constraint: schema.LiteralType{Type: cty.String}},
						"experiments": {IsOptional: true, Constraint: schema.Set{Elem: schema.OneOf{
							schema.Keyword{Keyword: "module_variable_optional_attrs", Name: "feature"},
							schema.Keyword{Keyword: "provider_sensitive_attrs", Name: "feature"}}}},
						"limits": {IsOptional: true, Constraint: schema.Tuple{Elems: []schema.Constraint{
							schema.LiteralType{Type: cty.Number}, schema.LiteralType{Type: cty.String}}}},
						"meta": {IsOptional: true, Constraint: schema.Object{Name: "meta", Attributes: schema.ObjectAttributes{
							"owner": {IsRequired: true, Constraint: schema.LiteralType{Type: cty.String}, Description: md("who owns")},
							"tier":  {IsOptional: true, Constraint: schema.LiteralType{Type: cty.Number}},
							"refs":  {IsOptional: true, Constraint: schema.List{Elem: schema.Reference{OfScopeId: "variable"}}},
							"nested": {IsOptional: true, Constraint: schema.Object{Attributes: schema.ObjectAttributes{
								"flag": {IsOptional: true, Constraint: schema.LiteralType{Type: cty.Bool}}}}},
						}}},
						"labels": {IsOptional: true, Constraint: schema.Map{Elem: schema.LiteralType{Type: cty.String}}},
						"level": {IsOptional: true, Constraint: schema.OneOf{
							schema.LiteralValue{Value: cty.NumberIntVal(1)}, schema.LiteralValue{Value: cty.NumberIntVal(2)},
							schema.LiteralValue{Value: cty.True}}},
						"shape": {IsOptional: true, Constraint: schema.LiteralType{Type: cty.Object(map[string]cty.Type{
							"a": cty.String, "b": cty.List(cty.Number)})}},
					},
					Blocks: map[string]*schema.BlockSchema{
						"backend": {
							Labels:   []*schema.LabelSchema{{Name: "type", IsDepKey: true, Completable: true}},
							MaxItems: 1,
							Body:     &schema.BodySchema{},
							DependentBody: map[schema.SchemaKey]*schema.BodySchema{
								labelDep(0, "s3"): {
									Attributes: map[string]*schema.AttributeSchema{
										"bucket": {IsRequired: true, Constraint: schema.LiteralType{Type: cty.String}},
										"key":    {IsOptional: true, Constraint: schema.LiteralType{Type: cty.String}},
									},
								},
								labelDep(0, "local"): {
									Attributes: map[string]*schema.AttributeSchema{
										"path": {IsOptional: true, Constraint: schema.LiteralType{Type: cty.String}},
									},
								},
							},
						},
						"required_providers": {
							MaxItems: 1,
							Body: &schema.BodySchema{
								AnyAttribute: &schema.AttributeSchema{
									IsOptional: true,
									Constraint: schema.OneOf{
										schema.Object{Attributes: schema.ObjectAttributes{
											"source":  {IsOptional: true, Constraint: schema.LiteralType{Type: cty.String}},
											"version": {IsOptional: true, Constraint: schema.LiteralType{Type: cty.String}},
										}},
										schema.LiteralType{Type: cty.String},
									},
								},
							},
						},
					},
				},
			},
		},
	}
}

const tfMain = `# main configuration – über-test ✓
terraform {
  required_version = ">= 1.0"
  experiments      = [module_variable_optional_attrs]
  limits           = [3, "three"]
  meta = {
    owner = "tëam-ü"
    tier  = 2
    refs  = [var.region, var.zones]
    nested = { flag = true }
  }
  labels = {
    env   = "prod"
    "a b" = "quoted"
  }
  level = 2
  shape = { a = "x", b = [1, 2] }
  backend "s3" {
    bucket = "state"
  }
  required_providers {
    aws = {
      source  = "hashicorp/aws"
      version = "~> 4.0"
    }
    null = "legacy"
  }
}

variable "region" {
  type        = string
  default     = "eu-west-1"
  description = "région"
}

variable "zones" {
  type    = list(string)
  default = ["a", "b"]
}

variable "settings" {
  type = object({
    name  = string
    ports = optional(list(number), [80])
  })
  sensitive = false
  validation {
    condition     = length(var.settings.name) > 3 && var.settings.ports[0] != 22
    error_message = "bad ${var.settings.name}"
  }
}

locals {
  prefix  = "app-${var.region}"
  count_x = max(1, 2, length(var.zones))
  tags    = { Name = local.prefix, Env = upper(var.region) }
  first   = var.zones[0]
  all     = [for z in var.zones : upper(z) if z != ""]
  mapped  = { for k, v in local.tags : k => lookup(local.tags, k, "none") }
  cond    = var.region == "eu-west-1" ? local.first : "other"
  splat   = aws_instance.web[*].id
  legacy  = aws_instance.web.0.id
  heredoc = <<-EOT
    hello ${var.region}
    %{ if local.cond != "" }yes%{ endif }
  EOT
  neg     = -local.count_x
  paren   = (local.count_x + 1) * 2
  ns      = provider::aws::arn_parse("arn")
  größe   = "ü"
  usage   = "${local.größe}-${local.größe}"
  rules   = [{ name = "http", port = 80 }, { name = "https", port = 443 }]
  nested  = { outer = { inner = "v", other = [1, 2] }, "quoted key" = { a = 1, b = 2 } }
  picked  = local.rules[1].name
}

provider "aws" {
  alias  = "west"
  region = var.region
}

data "aws_ami" "ubuntu" {
  most_recent = true
  owners      = ["099720109477"]
  filter {
    name   = "name"
    values = ["ubuntu-*"]
  }
  timeouts {
    read = "5m"
  }
}

data "remote_state" "net" {
  backend   = "s3"
  workspace = var.region
  config = {
    bucket = "tf-state"
    key    = "net/${var.region}"
  }
}

data "remote_state" "other" {
  backend = "gcs"
}

data "other" "y" {
}

resource "aws_instance" "web" {
  provider      = aws.west
  count         = local.count_x
  ami           = data.aws_ami.ubuntu.id
  instance_type = "t3.${count.index > 0 ? "micro" : "small"}"
  cpu_count     = 2
  monitoring    = true
  tags          = merge(local.tags, { Idx = count.index })
  security_ids  = [var.region, "sg-1"]
  placement     = { zone = var.zones[0], spread = 1 }
  pair          = ["a", 1]
  anything      = { x = var.region, y = [local.first] }
  old_field     = "x"
  depends_on    = [data.aws_ami.ubuntu, var.region]

  ebs_block_device {
    device_name = "/dev/sda"
    size        = 10
  }
  ebs_block_device {
    device_name = "/dev/sdb"
  }
  network {
    cidr = "10.0.0.0/16"
    rule {
      port = 80
    }
  }
  volume "data" {
    gb = 100
  }
  dynamic "ebs_block_device" {
    for_each = var.zones
    content {
      device_name = ebs_block_device.value
    }
  }
  lifecycle {
    create_before_destroy = true
    ignore_changes        = [tags, ami]
    precondition {
      condition     = self.ami != ""
      error_message = "no ami"
    }
  }
  provisioner "local-exec" {
    when    = destroy
    command = "echo ${self.arn}"
    environment = {
      A = "1"
    }
  }
  timeouts {
    create = "5m"
  }
}

resource "aws_s3_bucket" "logs" {
  for_each   = toset(var.zones)
  bucket     = "logs-${each.key}"
  acl        = "private"
  versioning = true
  lifecycle_rule {
    enabled = true
    days    = 30
  }
}

module "net" {
  source = "./net"
  cidr   = "10.0.0.0/8"
  zones  = var.zones
  providers = {
    aws = aws.west
  }
}

output "ip" {
  value       = aws_instance.web[0].arn
  description = "the ip"
  depends_on  = [aws_instance.web]
}
`

const tfBad = `resource "aws_instance" {
  ami =
  unknown_attr = 1
  ebs_block_device "x" {
  }
  network {}
  network {}
}
resource "unknown_type" "x" {
  foo = var.region
  bar {
    baz = 1
  }
}
resource "aws_s3_bucket" "b" "extra" {
  acl = "nope"
}
variable {
}
bogus "x" {
  a = 1
}
top_attr = true
terraform {}
terraform {
  backend "nope" {
    x = 1
  }
  meta = { owner = 1, zzz = 2, "q" = 3 }
  limits = [1, 2, 3, 4]
  level = 7
}
module "m" {
  source = "./other"
  x = 1
}
module "n" {
}
output "o" {
  value = [for x in var.zones : x.
`

const tfVars = `variable "extra" {
  type = map(object({ a = string }))
}
output "e" {
  value = var.extra["k"].a
}
`

func worldTF() *World {
	return &World{
		Name:   "tf",
		Schema: tfSchema(),
		Funcs:  stdFuncs(),
		Docs: map[string]string{
			"main.tf": tfMain,
			"vars.tf": tfVars,
		},
	}
}

// Two files of one module whose reference origins interleave in byte order: the alphabetically first file is short,
// the second one longer, both hold references (to each other's declarations too).
func worldPair() *World {
	return &World{
		Name:   "pair",
		Schema: tfSchema(),
		Funcs:  stdFuncs(),
		Docs: map[string]string{
			"a.tf": "output \"a\" {\n  value = var.foo\n}\n",
			"b.tf": "variable \"foo\" {\n  type = string\n}\noutput \"b\" {\n  value = var.foo\n}\nvariable \"bar\" {\n  default = 1\n}\noutput \"c\" {\n  value = [var.bar, var.foo]\n}\n",
		},
	}
}

// The same language written in JSON syntax (C01 / C02 on *.tf.json buffers; most position queries answer with an
// error value for JSON bodies, collection / symbols / validation decode them).
const tfJSON = `{
  "terraform": {
    "required_version": ">= 1.0",
    "limits": [3, "three"],
    "meta": {"owner": "tëam-ü", "tier": 2, "refs": ["${var.region}", "${var.zones}"]},
    "backend": {"s3": {"bucket": "state"}},
    "required_providers": {"aws": {"source": "hashicorp/aws", "version": "~> 4.0"}}
  },
  "variable": {
    "region": {"type": "string", "default": "eu-west-1", "description": "région"},
    "zones": {"type": "list(string)", "default": ["a", "b"]}
  },
  "locals": {
    "prefix": "app-${var.region}",
    "count_x": "${max(1, 2, length(var.zones))}",
    "tags": {"Name": "${local.prefix}", "Env": "${upper(var.region)}"},
    "first": "${var.zones[0]}",
    "cond": "${var.region == \"eu-west-1\" ? local.first : \"other\"}"
  },
  "provider": {"aws": {"alias": "west", "region": "${var.region}"}},
  "data": {
    "aws_ami": {"ubuntu": {"most_recent": true, "owners": ["099720109477"], "filter": [{"name": "name", "values": ["ubuntu-*"]}]}},
    "remote_state": {"net": {"backend": "s3", "workspace": "${var.region}", "config": {"bucket": "tf-state"}}}
  },
  "resource": {
    "aws_instance": {
      "web": {
        "provider": "${aws.west}",
        "count": "${local.count_x}",
        "ami": "${data.aws_ami.ubuntu.id}",
        "instance_type": "t3.${count.index > 0 ? \"micro\" : \"small\"}",
        "cpu_count": 2,
        "tags": "${merge(local.tags, { Idx = count.index })}",
        "security_ids": ["${var.region}", "sg-1"],
        "ebs_block_device": [{"device_name": "/dev/sda", "size": 10}, {"device_name": "/dev/sdb"}],
        "network": {"cidr": "10.0.0.0/16", "rule": {"port": 80}},
        "volume": {"data": {"gb": 100}},
        "dynamic": {"ebs_block_device": {"for_each": "${var.zones}", "content": {"device_name": "${ebs_block_device.value}"}}},
        "lifecycle": {"create_before_destroy": true, "ignore_changes": ["tags"]}
      }
    }
  },
  "module": {"net": {"source": "./net", "cidr": "10.0.0.0/8", "count": 2}},
  "output": {"ip": {"value": "${aws_instance.web[0].id}", "sensitive": false}}
}
`

func worldTFJSON() *World {
	return &World{
		Name:   "tfjson",
		Schema: tfSchema(),
		Funcs:  stdFuncs(),
		Docs: map[string]string{
			"main.tf.json": tfJSON,
			"vars.tf":      tfVars,
		},
	}
}

func worldTFBad() *World {
	return &World{
		Name:   "tfbad",
		Schema: tfSchema(),
		Funcs:  stdFuncs(),
		Docs: map[string]string{
			"bad.tf":  tfBad,
			"vars.tf": tfVars,
			// calls left open right behind '=' (the parser gives them a range without end)
			"cut1.tf": "variable \"cut\" {\n  type =list(\n",
			"cut2.tf": "locals {\n  cut =upper(\n  next = 1\n",
			// an index step without closing bracket (recovered by the parser up to the start of a later line)
			"cut3.tf": "output \"cut\" {\n  value = [\"z\", var.extra[1%{]\n}\n",
			// a half-typed namespaced function name with a multi-byte letter
			"cut4.tf": "locals {\n  fn = provider::\u00e9\n}\n",
		},
	}
}

// A compact world for dense, every-offset exploration: every constraint kind once.
func kinds() *World {
	s := &schema.BodySchema{
		Attributes: map[string]*schema.AttributeSchema{
			"kw":     {IsOptional: true, Constraint: schema.Keyword{Keyword: "auto", Description: md("automatic")}},
			"lv":     {IsOptional: true, Constraint: schema.OneOf{schema.LiteralValue{Value: cty.StringVal("on")}, schema.LiteralValue{Value: cty.False}, schema.LiteralValue{Value: cty.NumberIntVal(42)}}},
			"str":    {IsOptional: true, Constraint: schema.LiteralType{Type: cty.String}},
			"num":    {IsRequired: true, Constraint: schema.LiteralType{Type: cty.Number}},
			"flag":   {IsOptional: true, Constraint: schema.LiteralType{Type: cty.Bool}},
			"ref":    {IsOptional: true, Constraint: schema.Reference{OfType: cty.String}},
			"sref":   {IsOptional: true, Constraint: schema.Reference{OfScopeId: "thing"}},
			"td":     {IsOptional: true, Constraint: schema.TypeDeclaration{}},
			"td2":    {IsOptional: true, Constraint: schema.TypeDeclaration{}},
			"td3":    {IsOptional: true, Constraint: schema.TypeDeclaration{}},
			"td4":    {IsOptional: true, Constraint: schema.TypeDeclaration{}},
			"any_ns": {IsOptional: true, Constraint: schema.AnyExpression{OfType: cty.String}},
			"lst":    {IsOptional: true, Constraint: schema.List{Elem: schema.LiteralType{Type: cty.String}}},
			"st":     {IsOptional: true, Constraint: schema.Set{Elem: schema.Reference{OfScopeId: "thing"}}},
			"tup":    {IsOptional: true, Constraint: schema.Tuple{Elems: []schema.Constraint{schema.LiteralType{Type: cty.String}, schema.Reference{OfType: cty.Number}}}},
			"mp":     {IsOptional: true, Constraint: schema.Map{Elem: schema.AnyExpression{OfType: cty.Number}, AllowInterpolatedKeys: true}},
			"obj":    {IsOptional: true, Constraint: schema.Object{AllowInterpolatedKeys: true, Attributes: schema.ObjectAttributes{"p": {IsRequired: true, Constraint: schema.LiteralType{Type: cty.String}}, "q": {IsOptional: true, Constraint: schema.AnyExpression{OfType: cty.Bool}}}}},
			"any_s":  {IsOptional: true, Constraint: schema.AnyExpression{OfType: cty.String}},
			"any_l":  {IsOptional: true, Constraint: schema.AnyExpression{OfType: cty.List(cty.Number)}},
			"any_o":  {IsOptional: true, Constraint: schema.AnyExpression{OfType: cty.Object(map[string]cty.Type{"k": cty.String})}},
			"any_d":  {IsOptional: true, Constraint: schema.AnyExpression{OfType: cty.DynamicPseudoType}},
			"lt_l":   {IsOptional: true, Constraint: schema.LiteralType{Type: cty.List(cty.String)}},
			"lt_m":   {IsOptional: true, Constraint: schema.LiteralType{Type: cty.Map(cty.Number)}},
			"lt_o":   {IsOptional: true, Constraint: schema.LiteralType{Type: cty.Object(map[string]cty.Type{"k": cty.String, "n": cty.Number})}},
			"lt_t":   {IsOptional: true, Constraint: schema.LiteralType{Type: cty.Tuple([]cty.Type{cty.String, cty.Bool})}},
			"td5":    {IsOptional: true, Constraint: schema.TypeDeclaration{}},
			"any_n":  {IsOptional: true, Constraint: schema.AnyExpression{OfType: cty.Number}},
			// an attribute name with a letter followed by a combining mark (two code points, one column)
			"obj2":   {IsOptional: true, Constraint: schema.Object{Attributes: schema.ObjectAttributes{"p": {IsOptional: true, Constraint: schema.LiteralType{Type: cty.String}}, "qe\u0301": {IsOptional: true, Constraint: schema.LiteralType{Type: cty.Bool}}}}},
			"obj4":   {IsOptional: true, Constraint: schema.Object{Attributes: schema.ObjectAttributes{"p": {IsOptional: true, Constraint: schema.LiteralType{Type: cty.String}}, "qe\u0301": {IsOptional: true, Constraint: schema.LiteralType{Type: cty.Bool}}}}},
			"obj3":   {IsOptional: true, Constraint: schema.Object{Attributes: schema.ObjectAttributes{"p": {IsOptional: true, Constraint: schema.LiteralType{Type: cty.String}}, "q": {IsOptional: true, Constraint: schema.LiteralType{Type: cty.Bool}}}}},
			"any_c":  {IsOptional: true, Constraint: schema.AnyExpression{OfType: cty.String}},
			"any_s2": {IsOptional: true, Constraint: schema.AnyExpression{OfType: cty.String}},
			"mp2":    {IsOptional: true, Constraint: schema.Map{Elem: schema.AnyExpression{OfType: cty.Number}, AllowInterpolatedKeys: true}},
			"mp3":    {IsOptional: true, Constraint: schema.Map{Elem: schema.AnyExpression{OfType: cty.Number}}},
			"any_d2": {IsOptional: true, Constraint: schema.AnyExpression{OfType: cty.DynamicPseudoType}},
		},
		Blocks: map[string]*schema.BlockSchema{
			"thing": {
				Labels: []*schema.LabelSchema{{Name: "name"}},
				Address: &schema.BlockAddrSchema{
					Steps:   schema.Address{schema.StaticStep{Name: "thing"}, schema.LabelStep{Index: 0}},
					ScopeId: "thing", AsReference: true, BodyAsData: true, InferBody: true, BodySelfRef: true,
				},
				Body: &schema.BodySchema{
					Extensions: &schema.BodyExtensions{SelfRefs: true, Count: true},
					Attributes: map[string]*schema.AttributeSchema{
						"s": {IsOptional: true, Constraint: schema.AnyExpression{OfType: cty.String}},
						"n": {IsOptional: true, Constraint: schema.AnyExpression{OfType: cty.Number}},
						"l": {IsOptional: true, Constraint: schema.AnyExpression{OfType: cty.List(cty.String)}},
						"m": {IsOptional: true, Constraint: schema.AnyExpression{OfType: cty.Map(cty.String)}},
					},
					Blocks: map[string]*schema.BlockSchema{
						"part": {Type: schema.BlockTypeList, Body: &schema.BodySchema{Attributes: map[string]*schema.AttributeSchema{
							"w": {IsOptional: true, Constraint: schema.AnyExpression{OfType: cty.Number}},
							"h": {IsOptional: true, Constraint: schema.AnyExpression{OfType: cty.Number}}}}},
					},
				},
			},
		},
	}
	doc := `kw   = auto
lv   = "on"
str  = "héllo wörld"
num  = 4.5
flag = true
ref  = thing.a.s
sref = thing.b
td   = map(list(object({ a = string, b = optional(number, 1) })))
td2  = tuple([string, set(number)])
td3  = map(object())
td4  = a :: list(string)
any_ns = a :: upper("x")
td5=list(string)
any_c=upper("x")
lst  = ["x", "yy"]
st   = [thing.a, thing.b]
tup  = ["s", thing.a.n]
mp   = { one = 1, (thing.a.s) = thing.a.n, "three" = 1 + 2 }
obj  = { p = "v", q = !true }
any_s = "pre-${thing.a.s}-${upper("x")}"
any_l = [1, thing.a.n, max(1, 2)]
any_o = { k = thing.a.s }
any_n = lookup(thing.a.m,  "k1", 0)
obj2 = {
  p = "v"
  qé = true
}
obj4 = {
  p = "v"
  qé  # c
}
obj3 = {
  p = "naı̈ve" # 👍🏽 ok
  q # 👍🏽 ok
}
any_d = thing.b.l[0]
lt_l = ["a"]
lt_m = { a = 1 }
lt_o = { k = "v", n = 2 }
lt_t = ["t", false]
thing "größe" {
  s = "multi-byte label used as a reference step"
}
any_s2 = thing.größe.s
mp2 = { (null) = 1, (true ? null : "x") = 2, "ключ" = 3  }
mp3 = {
  one = 1 
  two = 2
}
any_d2 = { (null) = thing.a.s, k = [thing.größe.s] }
thing "a" {
  s = "ß"
  n = 1
  l = ["p", "q"]
  m = { k1 = "x", k2 = thing.a.m["k1"], ("k3") = "z" }
  part {
    w = self.n
    h = 3
  }
  part {
    w = 2
    h = self.part[0].w
  }
}
thing "b" {
  count = 2
  s = self.l[0]
  n = count.index
  l = ["z", thing.a.l[1]]
  part {
    w = self.part[0].h
    h = 1
  }
}
`
	return &World{Name: "kinds", Schema: s, Funcs: stdFuncs(), Docs: map[string]string{"k.tf": doc}}
}

// Hostile-but-valid schemas (DESIGN §7).
func hostile() *World {
	s := &schema.BodySchema{
		Blocks: map[string]*schema.BlockSchema{
			// block schema without body, labels or anything else
			"plain": {},
			// dependent body selected by three key attributes (the key must not depend on the order they are listed in)
			"tri": {
				Body: &schema.BodySchema{Attributes: map[string]*schema.AttributeSchema{
					"alpha": {IsOptional: true, IsDepKey: true, Constraint: schema.LiteralType{Type: cty.String}},
					"beta":  {IsOptional: true, IsDepKey: true, Constraint: schema.LiteralType{Type: cty.String}},
					"gamma": {IsOptional: true, IsDepKey: true, Constraint: schema.LiteralType{Type: cty.String}},
				}},
				DependentBody: map[schema.SchemaKey]*schema.BodySchema{
					schema.NewSchemaKey(schema.DependencyKeys{Attributes: []schema.AttributeDependent{
						{Name: "alpha", Expr: schema.ExpressionValue{Static: cty.StringVal("a")}},
						{Name: "beta", Expr: schema.ExpressionValue{Static: cty.StringVal("b")}},
						{Name: "gamma", Expr: schema.ExpressionValue{Static: cty.StringVal("c")}},
					}}): {Attributes: map[string]*schema.AttributeSchema{"other": {IsOptional: true, Constraint: schema.LiteralType{Type: cty.Number}}}},
				},
			},
			// block schema without body
			"nobody": {Labels: []*schema.LabelSchema{{Name: "n", IsDepKey: true}}},
			// dependent bodies only, with dynamic blocks propagated into body-less nested blocks
			"dep": {
				Labels: []*schema.LabelSchema{{Name: "t", IsDepKey: true, Completable: true}, {Name: "u", IsDepKey: true}},
				Body: &schema.BodySchema{
					Extensions: &schema.BodyExtensions{DynamicBlocks: true, Count: true, ForEach: true, SelfRefs: true},
					Attributes: map[string]*schema.AttributeSchema{
						"sel": {IsOptional: true, IsDepKey: true, Constraint: schema.LiteralType{Type: cty.String}, DefaultValue: schema.DefaultValue{Value: cty.StringVal("dflt")}},
					},
					Blocks: map[string]*schema.BlockSchema{
						"bare": {},
					},
				},
				DependentBody: map[schema.SchemaKey]*schema.BodySchema{
					schema.NewSchemaKey(schema.DependencyKeys{
						Labels:     []schema.LabelDependent{{Index: 0, Value: "x"}, {Index: 1, Value: "y"}},
						Attributes: []schema.AttributeDependent{{Name: "sel", Expr: schema.ExpressionValue{Static: cty.StringVal("dflt")}}},
					}): {
						DocsLink: &schema.DocsLink{URL: "https://example.com/x/y"},
						Attributes: map[string]*schema.AttributeSchema{
							"xy": {IsOptional: true, Constraint: schema.AnyExpression{OfType: cty.String}},
						},
						Blocks: map[string]*schema.BlockSchema{
							"inner_nobody": {},
						},
					},
				},
			},
			// map-typed block collection, written possibly without labels
			"coll": {
				Labels: []*schema.LabelSchema{{Name: "id"}},
				Address: &schema.BlockAddrSchema{
					Steps: schema.Address{schema.StaticStep{Name: "coll"}, schema.LabelStep{Index: 0}}, ScopeId: "c",
					AsReference: true, BodyAsData: true, InferBody: true,
				},
				Body: &schema.BodySchema{
					Blocks: map[string]*schema.BlockSchema{
						"m": {Type: schema.BlockTypeMap, Labels: []*schema.LabelSchema{{Name: "k"}}, Body: &schema.BodySchema{
							Attributes: map[string]*schema.AttributeSchema{"v": {IsOptional: true, Constraint: schema.AnyExpression{OfType: cty.String}}}}},
						"o": {Type: schema.BlockTypeObject, Body: &schema.BodySchema{
							Attributes: map[string]*schema.AttributeSchema{"v": {IsOptional: true, Constraint: schema.AnyExpression{OfType: cty.String}}}}},
						"s": {Type: schema.BlockTypeSet, Body: &schema.BodySchema{
							Attributes: map[string]*schema.AttributeSchema{"v": {IsOptional: true, Constraint: schema.AnyExpression{OfType: cty.String}}}}},
					},
				},
			},
			// address step taken from an attribute value
			"byval": {
				Address: &schema.BlockAddrSchema{
					Steps: schema.Address{schema.StaticStep{Name: "bv"}, schema.AttrValueStep{Name: "name"}}, ScopeId: "bv", AsReference: true,
				},
				Body: &schema.BodySchema{
					Attributes: map[string]*schema.AttributeSchema{
						"name": {IsOptional: true, Constraint: schema.LiteralType{Type: cty.String}},
					},
				},
			},
			// write-only attribute in a resource-like block
			"resource": {
				Labels: []*schema.LabelSchema{{Name: "type", IsDepKey: true}, {Name: "name"}},
				Body: &schema.BodySchema{
					Attributes: map[string]*schema.AttributeSchema{
						"pw": {IsOptional: true, IsWriteOnly: true, Constraint: schema.AnyExpression{OfType: cty.String}},
					},
				},
				DependentBody: map[schema.SchemaKey]*schema.BodySchema{
					labelDep(0, "t"): {Attributes: map[string]*schema.AttributeSchema{
						"pw2": {IsOptional: true, IsWriteOnly: true, Constraint: schema.AnyExpression{OfType: cty.String}}}},
				},
			},
		},
		Attributes: map[string]*schema.AttributeSchema{
			"esc": {IsOptional: true, Constraint: schema.Object{Attributes: schema.ObjectAttributes{
				"a\"b": {IsOptional: true, Constraint: schema.LiteralType{Type: cty.String}},
				"key":  {IsOptional: true, Constraint: schema.LiteralType{Type: cty.String}}}}},
			"lvb": {IsOptional: true, Constraint: schema.LiteralValue{Value: cty.True}},
			"ltb": {IsOptional: true, Constraint: schema.LiteralType{Type: cty.Bool}},
			// references typed where a bool literal is expected
			"lvr": {IsOptional: true, Constraint: schema.OneOf{schema.LiteralValue{Value: cty.True}, schema.LiteralValue{Value: cty.False}}},
			"ltr": {IsOptional: true, Constraint: schema.LiteralType{Type: cty.Bool}},
		},
		TargetableAs: schema.Targetables{
			{Address: lang.Address{lang.RootStep{Name: "root"}, lang.AttrStep{Name: "t"}}, ScopeId: "r", AsType: cty.Object(map[string]cty.Type{"in": cty.String}),
				NestedTargetables: schema.Targetables{
					{Address: lang.Address{lang.RootStep{Name: "root"}, lang.AttrStep{Name: "t"}, lang.AttrStep{Name: "in"}}, ScopeId: "r", AsType: cty.String},
				}},
		},
	}
	doc := `esc = { "a\"b" = "1", key = "2" }
lvb =   true
ltb =   false
lvr = bv.n1.enabled[0]
ltr = t.f
nobody "q" {
  z = 1
}
dep "x" "y" {
  xy = "v"
  bare {
    q = 1
  }
  inner_nobody {
  }
  dynamic "bare" {
    for_each = []
    content {}
  }
}
dep "x" {
}
dep {
}
coll "c1" {
  m {
    v = "nolabel"
  }
  m "k1" {
    v = "a"
  }
  o {
    v = "b"
  }
  s {
    v = "c"
  }
}
byval {
  name = null
}
byval {
  name = "n1"
}
byval {
  name = true ? null : "n2"
}
plain {
}
tri {
  alpha = "a"
  beta  = "b"
  gamma = "c"
  other = 42
}
resource {
  pw = "x"
}
resource "t" "n" {
  pw  = "x"
  pw2 = "y"
}
`
	return &World{Name: "hostile", Schema: s, Funcs: stdFuncs(), Docs: map[string]string{"h.tf": doc}, Hostile: true}
}

// A workspace of several paths linked by path origins (module inputs), a direct origin and implied origins; one path
// shares its directory with another and differs only in the language id.
var sentinelRange = hcl.Range{Filename: "sentinel.tf", Start: hcl.Pos{Line: 7, Column: 7, Byte: 77}, End: hcl.Pos{Line: 7, Column: 9, Byte: 79}}

func modsSchemaRoot() *schema.BodySchema {
	modPath := lang.Path{Path: "p2", LanguageID: "tf"}
	input := func() *schema.AttributeSchema {
		return &schema.AttributeSchema{IsOptional: true, Constraint: schema.AnyExpression{OfType: cty.DynamicPseudoType},
			OriginForTarget: &schema.PathTarget{Address: schema.Address{schema.StaticStep{Name: "var"}, schema.AttrNameStep{}}, Path: modPath,
				Constraints: schema.Constraints{ScopeId: "variable"}}}
	}
	return &schema.BodySchema{
		Blocks: map[string]*schema.BlockSchema{
			"variable": varBlock(),
			"output":   outBlock(),
			"module": {
				Labels: []*schema.LabelSchema{{Name: "name"}},
				Address: &schema.BlockAddrSchema{Steps: schema.Address{schema.StaticStep{Name: "module"}, schema.LabelStep{Index: 0}}, ScopeId: "module",
					AsReference: true, DependentBodyAsData: true, InferDependentBody: true},
				Body: &schema.BodySchema{Attributes: map[string]*schema.AttributeSchema{
					"source": {IsRequired: true, IsDepKey: true, Constraint: schema.LiteralType{Type: cty.String}}}},
				DependentBody: map[schema.SchemaKey]*schema.BodySchema{
					// a module whose source is the directory itself: its inputs are path origins into their own path
					attrDepStr("source", "./"): {
						Attributes: map[string]*schema.AttributeSchema{"region": {IsOptional: true, Constraint: schema.AnyExpression{OfType: cty.DynamicPseudoType},
							OriginForTarget: &schema.PathTarget{Address: schema.Address{schema.StaticStep{Name: "var"}, schema.AttrNameStep{}}, Path: lang.Path{Path: "p1", LanguageID: "tf"},
								Constraints: schema.Constraints{ScopeId: "variable"}}}},
					},
					attrDepStr("source", "./mod"): {
						Targets:    &schema.Target{Path: modPath, Range: sentinelRange},
						Attributes: map[string]*schema.AttributeSchema{"name": input(), "size": input()},
						ImpliedOrigins: schema.ImpliedOrigins{{OriginAddress: lang.Address{lang.RootStep{Name: "module"}, lang.AttrStep{Name: "m"}, lang.AttrStep{Name: "x"}},
							TargetAddress: lang.Address{lang.RootStep{Name: "output"}, lang.AttrStep{Name: "x"}}, Path: modPath, Constraints: schema.Constraints{ScopeId: "output"}}},
						TargetableAs: schema.Targetables{{Address: lang.Address{lang.RootStep{Name: "module"}, lang.AttrStep{Name: "m"}, lang.AttrStep{Name: "x"}}, ScopeId: "module", AsType: cty.String}},
					},
				},
			},
		},
	}
}

func varBlock() *schema.BlockSchema {
	return &schema.BlockSchema{
		Labels: []*schema.LabelSchema{{Name: "name"}},
		Address: &schema.BlockAddrSchema{Steps: schema.Address{schema.StaticStep{Name: "var"}, schema.LabelStep{Index: 0}}, ScopeId: "variable",
			AsReference: true, AsTypeOf: &schema.BlockAsTypeOf{AttributeExpr: "type"}},
		Body: &schema.BodySchema{Attributes: map[string]*schema.AttributeSchema{
			"type":    {IsOptional: true, Constraint: schema.TypeDeclaration{}},
			"default": {IsOptional: true, Constraint: schema.AnyExpression{OfType: cty.DynamicPseudoType}}}},
	}
}

func outBlock() *schema.BlockSchema {
	return &schema.BlockSchema{
		Labels:  []*schema.LabelSchema{{Name: "name"}},
		Address: &schema.BlockAddrSchema{Steps: schema.Address{schema.StaticStep{Name: "output"}, schema.LabelStep{Index: 0}}, ScopeId: "output", AsReference: true},
		Body: &schema.BodySchema{Attributes: map[string]*schema.AttributeSchema{
			"value": {IsRequired: true, Constraint: schema.AnyExpression{OfType: cty.DynamicPseudoType}}}},
	}
}

func modsWorld(unreadable bool) *World {
	sub := &World{Name: "mods-p2", Schema: &schema.BodySchema{Blocks: map[string]*schema.BlockSchema{"variable": varBlock(), "output": outBlock()}}, Funcs: stdFuncs(),
		Docs: map[string]string{"variables.tf": "variable \"name\" {\n  type = string\n}\nvariable \"size\" {\n  type = number\n}\n", "outputs.tf": "output \"x\" {\n  value = \"${var.name}-${var.size}\"\n}\n"}}
	// same directory as p1, another language id: a "vars" file whose attribute names are origins into p1
	varsSchema := &schema.BodySchema{AnyAttribute: &schema.AttributeSchema{IsOptional: true, Constraint: schema.AnyExpression{OfType: cty.DynamicPseudoType},
		OriginForTarget: &schema.PathTarget{Address: schema.Address{schema.StaticStep{Name: "var"}, schema.AttrNameStep{}}, Path: lang.Path{Path: "p1", LanguageID: "tf"},
			Constraints: schema.Constraints{ScopeId: "variable"}}}}
	vars := &World{Name: "mods-vars", Schema: varsSchema, Funcs: stdFuncs(), Docs: map[string]string{"x.tfvars": "name = \"n\"\nregion = \"eu\"\n"}}
	w := &World{Name: "mods", Schema: modsSchemaRoot(), Funcs: stdFuncs(),
		Docs: map[string]string{"main.tf": "variable \"name\" {\n  type = string\n}\nvariable \"region\" {\n  default = \"eu\"\n}\nmodule \"m\" {\n  source = \"./mod\"\n  name   = var.name\n  size   = 3\n}\n" +
			"module \"other\" {\n  source = \"./unknown\"\n  name   = 1\n}\nmodule \"again\" {\n  source = \"./\"\n  region = \"eu\"\n}\noutput \"o\" {\n  value = [module.m.x, var.region, var.name]\n}\n" +
			// many origins, several of them sharing a range (a local origin and the implied origin of module.m.x): their order must not depend on anything
			"module \"wide\" {\n  source = \"./mod\"\n  name   = module.m.x\n  size   = module.m.x\n}\n" +
			"output \"many\" {\n  value = [module.m.x, var.name, module.m.x, var.region, module.m.x, var.name, module.m.x, var.region, module.m.x]\n}\n"},
		// a further directory with the same vars file: two origins of different paths with one file name and one range
		Peers: map[string]*World{"p2": sub, "p1#vars": vars, "p3#vars": {Name: "mods-vars3", Schema: varsSchema, Funcs: stdFuncs(), Docs: map[string]string{"x.tfvars": vars.Docs["x.tfvars"]}}}}
	if unreadable {
		w.Name = "modsbroken"
		w.Unreadable = []string{"p2"}
	}
	return w
}

// kindsbad: the kinds schema over small files that do not parse (a broken construct in the kinds document itself would
// take the rest of that document with it)
func kindsBad() *World {
	k := kinds()
	return &World{Name: "kindsbad", Schema: k.Schema, Funcs: k.Funcs, Docs: map[string]string{
		// an index step without closing bracket at the top level: the parser extends it up to the start of a later line
		"b1.tf": "thing \"a\" {\n  l = [\"p\", \"q\"]\n}\nany_d = thing.a.l[1%{]\nlt_l = [\"a\"]\n",
	}}
}

func allWorlds() []*World {
	ws := []*World{kinds(), kindSplit(), kindsBad(), worldTF(), worldPair(), worldTFJSON(), worldTFBad(), hostile(), modsWorld(false), modsWorld(true)}
	for _, w := range ws {
		for _, pw := range w.Peers {
			if err := pw.Schema.Validate(); err != nil {
				panic(fmt.Sprintf("world %s peer: schema invalid: %v", w.Name, err))
			}
		}
		if err := w.Schema.Validate(); err != nil {
			panic(fmt.Sprintf("world %s: schema invalid: %v", w.Name, err))
		}
	}
	return ws
}

// kindsplit: every top-level item of the kinds document in a file of its own, so that every construct is also seen on
// the first line of a file (positions computed from columns instead of offsets coincide with the right ones only there).
func kindSplit() *World {
	k := kinds()
	src := []byte(k.Docs["k.tf"])
	f, _ := hclsyntax.ParseConfig(src, "k.tf", hcl.InitialPos)
	body := f.Body.(*hclsyntax.Body)
	type item struct{ s, e int }
	items := []item{}
	for _, a := range body.Attributes {
		items = append(items, item{a.SrcRange.Start.Byte, a.SrcRange.End.Byte})
	}
	for _, b := range body.Blocks {
		items = append(items, item{b.Range().Start.Byte, b.Range().End.Byte})
	}
	sort.Slice(items, func(i, j int) bool { return items[i].s < items[j].s })
	docs := map[string]string{}
	for i, it := range items {
		docs[fmt.Sprintf("k%02d.tf", i)] = string(src[it.s:it.e]) + "\n"
	}
	return &World{Name: "kindsplit", Schema: k.Schema, Funcs: k.Funcs, Docs: docs}
}

func worldByName(n string) *World {
	for _, w := range allWorlds() {
		if w.Name == n {
			return w
		}
	}
	return nil
}
