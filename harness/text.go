package main

// The harness side of Text.tla: a buffer is a sequence of lines, a line is a
// sequence of grapheme clusters (byte widths; 0 marks a one-byte blank).
// Segmentation uses the textseg package; counting is done here.

import (
	"bytes"

	"github.com/apparentlymart/go-textseg/v15/textseg"
	"github.com/hashicorp/hcl/v2"
	"github.com/hashicorp/hcl/v2/hclsyntax"
)

// Lines returns the cell model of a buffer. A buffer with n newlines has n+1 lines.
func Lines(src []byte) [][]int {
	out := [][]int{}
	for _, ln := range bytes.Split(src, []byte{'\n'}) {
		cells := []int{}
		rest := ln
		for len(rest) > 0 {
			adv, tok, _ := textseg.ScanGraphemeClusters(rest, true)
			if adv == 0 {
				break
			}
			if len(tok) == 1 && (tok[0] == ' ' || tok[0] == '\t') {
				cells = append(cells, 0)
			} else {
				cells = append(cells, len(tok))
			}
			rest = rest[adv:]
		}
		out = append(out, cells)
	}
	return out
}

// Boundaries returns every cluster-boundary position 0..len(src), computed
// by the harness' own counting.
func Boundaries(src []byte) []hcl.Pos {
	ps := []hcl.Pos{}
	line, col, b := 1, 1, 0
	rest := src
	for {
		ps = append(ps, hcl.Pos{Line: line, Column: col, Byte: b})
		if len(rest) == 0 {
			break
		}
		adv, tok, _ := textseg.ScanGraphemeClusters(rest, true)
		if adv == 0 {
			break
		}
		if len(tok) == 1 && tok[0] == '\n' {
			line++
			col = 1
		} else {
			col++
		}
		b += adv
		rest = rest[adv:]
	}
	return ps
}

// PosAt returns the harness-computed position of a byte offset (which must be a cluster boundary).
func PosAt(src []byte, off int) hcl.Pos {
	line, col, b := 1, 1, 0
	rest := src
	for b < off && len(rest) > 0 {
		adv, tok, _ := textseg.ScanGraphemeClusters(rest, true)
		if adv == 0 {
			break
		}
		if len(tok) == 1 && tok[0] == '\n' {
			line++
			col = 1
		} else {
			col++
		}
		b += adv
		rest = rest[adv:]
	}
	return hcl.Pos{Line: line, Column: col, Byte: b}
}

// TokenCuts returns the end offsets of every lexer token (cut points at which a
// buffer is a "token prefix" of the document) – always cluster boundaries.
func TokenCuts(src []byte) []int {
	toks, _ := hclsyntax.LexConfig(src, "x.tf", hcl.InitialPos)
	seen := map[int]bool{0: true}
	cuts := []int{0}
	for _, t := range toks {
		e := t.Range.End.Byte
		if e <= len(src) && !seen[e] {
			seen[e] = true
			cuts = append(cuts, e)
		}
	}
	if !seen[len(src)] {
		cuts = append(cuts, len(src))
	}
	return cuts
}

type Tok struct {
	S, E int
	Type hclsyntax.TokenType
}

func LexToks(src []byte) []Tok {
	toks, _ := hclsyntax.LexConfig(src, "x.tf", hcl.InitialPos)
	out := make([]Tok, 0, len(toks))
	for _, t := range toks {
		if t.Type == hclsyntax.TokenEOF {
			continue
		}
		out = append(out, Tok{t.Range.Start.Byte, t.Range.End.Byte, t.Type})
	}
	return out
}

// Exotic white space (C01 only: the text model of C02 has no CR): what unicode.IsSpace accepts but a blank/tab trim does not.
var spaceAlphabet = []string{"\r", "\r\n", "\f", "\v", "\u00a0", "\u0085", " \r", "\u2028"}

// activeAlphabet is the alphabet editStates draws from (switched by hx session -alphabet)
var activeAlphabet = &tokenAlphabet

// Replacement token texts for single-token edits (Typing.tla: ReplaceTok / InsertTok).
var tokenAlphabet = []string{
	"x", "var", "self", "count", "each", "true", "null", "0", "1.5", "\"s\"", "\"${", "${", "}", "{", "(", ")", "[", "]",
	"=", ".", ",", ":", "?", "=>", "+", "-", "!", "*", "&&", "==", "for", "in", "if", "...", "\n", " ", "#c\n", "/*", "<<EOT\n",
	"é", "\"ü\"", "[*]", ".0", "::", "%{", "dynamic", "\"", "%",
}
