package main

// Direction A for Outline.tla (C14): documents / workspaces from MC_Outline are rendered, SymbolsInFile and the workspace
// query of the real decoder are asked, and the symbol trees are logged with the renderer's extents.

import (
	"bufio"
	"encoding/json"
	"flag"
	"fmt"
	"os"
	"sync"
	"time"

	"github.com/hashicorp/hcl-lang/decoder"
	"github.com/hashicorp/hcl-lang/reference"
	"github.com/hashicorp/hcl-lang/schema"
	"github.com/hashicorp/hcl/v2"
)

func init() { commands["outline"] = cmdOutline }

type OutlinePath struct {
	Key      string      `json:"key"`
	Doc      Seq[*AItem] `json:"doc"`
	Readable bool        `json:"readable"`
}

type OutlineCase struct {
	Mode  string           `json:"mode"`
	Doc   Seq[*AItem]      `json:"doc"`
	Query string           `json:"query"`
	Paths Seq[OutlinePath] `json:"paths"`
}

func symTree(syms []decoder.Symbol) []interface{} {
	out := []interface{}{}
	for _, s := range syms {
		r := s.Range()
		out = append(out, []interface{}{s.Name(), r.Start.Byte, r.End.Byte, symTree(s.NestedSymbols())})
	}
	return out
}

func extJSON(rd *Rendered) map[string][]int {
	m := map[string][]int{}
	for k, e := range rd.Ext {
		m[k] = []int{e.Full[0], e.Full[1]}
	}
	return m
}

func runOutlineCase(wt *watch, c *OutlineCase, idx int, layout int) Event {
	ev := Event{"ev": "Outline", "mode": c.Mode, "case": idx, "layout": layout}
	if c.Mode == "file" {
		rd := Render(c.Doc, newLayout(int64(idx), layout), nil)
		env := envFor(nil, rd.Src) // native syntax outline needs no schema
		o := env.Run(wt, Q{Kind: "symbols", Path: "p1", File: "t.tf"})
		ev["doc"] = c.Doc
		ev["status"] = o.Status
		ev["ext"] = extJSON(rd)
		ev["syms"] = []interface{}{}
		if syms, ok := o.Value.([]decoder.Symbol); ok {
			ev["syms"] = symTree(syms)
		}
		return ev
	}
	r := &Reader{Ctxs: map[string]*decoder.PathContext{}, Failing: map[string]bool{}, LangID: "x"}
	exts := map[string]map[string][]int{}
	for _, p := range c.Paths {
		rd := Render(p.Doc, newLayout(int64(idx), layout), nil)
		exts[p.Key] = extJSON(rd)
		pc := &decoder.PathContext{Schema: &schema.BodySchema{}, Files: map[string]*hcl.File{}, ReferenceTargets: reference.Targets{}, ReferenceOrigins: reference.Origins{}}
		pc.Files["t.tf"] = parseFile("t.tf", rd.Src)
		r.Ctxs[p.Key] = pc
		r.Order = append(r.Order, p.Key)
		if !p.Readable {
			r.Failing[p.Key] = true
		}
	}
	env := &Env{R: r, Dec: decoder.NewDecoder(r)}
	env.Dec.SetContext(newDecCtx())
	o := env.Run(wt, Q{Kind: "wsymbols", Query: c.Query})
	ev["paths"] = c.Paths
	ev["query"] = c.Query
	ev["status"] = o.Status
	ev["exts"] = exts
	res := []interface{}{}
	if syms, ok := o.Value.([]decoder.Symbol); ok {
		for _, s := range syms {
			rg := s.Range()
			res = append(res, []interface{}{r.keyOf(s.Path()), s.Name(), rg.Start.Byte, rg.End.Byte})
		}
	}
	ev["syms"] = res
	return ev
}

func cmdOutline(fs *flag.FlagSet) {
	in := fs.String("cases", "", "NDJSON cases from TLC")
	out := fs.String("out", "outline", "output prefix")
	fs.Int64("seed", 1, "seed")
	layouts := fs.Int("layouts", 2, "layouts")
	shards := fs.Int("shards", 8, "shards")
	fs.Parse(os.Args[2:])
	startWatchdog(60 * time.Second)
	f, err := os.Open(*in)
	if err != nil {
		fatal("open: %v", err)
	}
	var cases []*OutlineCase
	sc := bufio.NewScanner(f)
	sc.Buffer(make([]byte, 1<<20), 1<<24)
	for sc.Scan() {
		var c OutlineCase
		if err := json.Unmarshal(sc.Bytes(), &c); err != nil {
			fatal("bad case: %v", err)
		}
		cases = append(cases, &c)
	}
	f.Close()
	var wg sync.WaitGroup
	counts := make([]int, *shards)
	for s := 0; s < *shards; s++ {
		wg.Add(1)
		go func(s int) {
			defer wg.Done()
			wt := newWatch()
			tw := newTraceWriter(fmt.Sprintf("%s.%03d.ndjson", *out, s))
			defer tw.Close()
			for i := s; i < len(cases); i += *shards {
				for l := 0; l < *layouts; l++ {
					tw.Emit(runOutlineCase(wt, cases[i], i, l))
					counts[s]++
				}
			}
		}(s)
	}
	wg.Wait()
	n := 0
	for _, c := range counts {
		n += c
	}
	fmt.Printf("{\"cases\":%d,\"events\":%d}\n", len(cases), n)
}
