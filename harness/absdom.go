package main

// The abstract domain shared with the TLA+ modules (BodyRules.tla ...): abstract schemas and documents as
// JSON. TLC's ToJson writes an empty sequence / set as "{}" – Seq[T] accepts that.

import (
	"bytes"
	"encoding/json"
	"fmt"
	"sort"
	"strconv"
	"strings"

	"github.com/hashicorp/hcl-lang/lang"
	"github.com/hashicorp/hcl-lang/schema"
	"github.com/zclconf/go-cty/cty"
)

type Seq[T any] []T

func (s *Seq[T]) UnmarshalJSON(b []byte) error {
	b = bytes.TrimSpace(b)
	if len(b) > 0 && b[0] == '{' {
		*s = nil
		return nil
	}
	var x []T
	if err := json.Unmarshal(b, &x); err != nil {
		return err
	}
	*s = x
	return nil
}

func (s Seq[T]) MarshalJSON() ([]byte, error) {
	if s == nil {
		return []byte("[]"), nil
	}
	return json.Marshal([]T(s))
}

// Map tolerates TLC's rendering of an empty function as [] (or {}).
type Map[T any] map[string]T

func (m *Map[T]) UnmarshalJSON(b []byte) error {
	b = bytes.TrimSpace(b)
	if len(b) > 0 && b[0] == '[' {
		*m = map[string]T{}
		return nil
	}
	x := map[string]T{}
	if err := json.Unmarshal(b, &x); err != nil {
		return err
	}
	*m = x
	return nil
}

type AVal struct {
	K string      `json:"k"` // str | ref | num | other | nil  - or any expression kind of ExprRules.tla
	V interface{} `json:"v,omitempty"`
	// expression fields (when the value is an abstract expression tree)
	T     string        `json:"t,omitempty"`
	Steps Seq[AStep]    `json:"steps,omitempty"`
	Es    Seq[*AExpr]   `json:"es,omitempty"`
	Items Seq[AObjItem] `json:"items,omitempty"`
	Addr  []string      `json:"addr,omitempty"` // legref: the address the written reference declares
}

// AsExpr: the value as an abstract expression (nil for the simple value kinds)
func (v *AVal) AsExpr() *AExpr {
	switch v.K {
	case "lit", "list", "obj":
		return &AExpr{K: v.K, T: v.T, V: v.V, Steps: v.Steps, Es: v.Es, Items: v.Items}
	case "ref":
		if len(v.Steps) > 0 {
			return &AExpr{K: v.K, Steps: v.Steps}
		}
	}
	return nil
}

type AItem struct {
	K      string      `json:"k"` // attr | block
	Name   string      `json:"name,omitempty"`
	Val    *AVal       `json:"val,omitempty"`
	Type   string      `json:"type,omitempty"`
	Labels Seq[string] `json:"labels"`
	Body   Seq[*AItem] `json:"body"`
}

type AAddr struct {
	K             string             `json:"k,omitempty"` // "nil" marks absence
	Steps         Seq[[]interface{}] `json:"steps"`
	Scope         string             `json:"scope"`
	AsRef         bool               `json:"asRef"`
	AsType        bool               `json:"asType"`
	AsTypeOf      string             `json:"asTypeOf"`
	BodyAsData    bool               `json:"bodyAsData"`
	DepBodyAsData bool               `json:"depBodyAsData"`
	UnknownNested bool               `json:"unknownNested"`
}

func (a *AAddr) IsNil() bool { return a == nil || a.K == "nil" }

type ATas struct {
	Addr   Seq[string] `json:"addr"`
	Scope  string      `json:"scope"`
	Typ    string      `json:"typ"`
	Nested Seq[ATas]   `json:"nested,omitempty"`
}

func buildTas(tb ATas) *schema.Targetable {
	addr := lang.Address{}
	for i, n := range tb.Addr {
		if i == 0 {
			addr = append(addr, lang.RootStep{Name: n})
		} else {
			addr = append(addr, lang.AttrStep{Name: n})
		}
	}
	t := &schema.Targetable{Address: addr, ScopeId: lang.ScopeId(tb.Scope), AsType: friendlyType(tb.Typ)}
	for _, n := range tb.Nested {
		t.NestedTargetables = append(t.NestedTargetables, buildTas(n))
	}
	return t
}

func friendlyType(t string) cty.Type {
	switch t {
	case "string":
		return cty.String
	case "number":
		return cty.Number
	case "bool":
		return cty.Bool
	case "object":
		return cty.EmptyObject
	case "list of string":
		return cty.List(cty.String)
	}
	return cty.DynamicPseudoType
}

func addrSteps(steps [][]interface{}) schema.Address {
	out := schema.Address{}
	for _, st := range steps {
		switch fmt.Sprint(st[0]) {
		case "static":
			out = append(out, schema.StaticStep{Name: fmt.Sprint(st[1])})
		case "label":
			f, _ := st[1].(float64)
			out = append(out, schema.LabelStep{Index: uint(f)})
		case "attrval":
			out = append(out, schema.AttrValueStep{Name: fmt.Sprint(st[1])})
		case "attrvalopt":
			out = append(out, schema.AttrValueStep{Name: fmt.Sprint(st[1]), IsOptional: true})
		case "attrname":
			out = append(out, schema.AttrNameStep{})
		}
	}
	return out
}

type AExt struct {
	Count   bool `json:"count"`
	ForEach bool `json:"forEach"`
	Dyn     bool `json:"dyn"`
}

type AAttr struct {
	Req  bool        `json:"req"`
	Opt  bool        `json:"opt"`
	Comp bool        `json:"comp"`
	Dep  bool        `json:"dep"`
	Depr bool        `json:"depr"`
	Dflt *AVal       `json:"dflt"`
	Mods Seq[string] `json:"mods,omitempty"`
	Desc string      `json:"desc,omitempty"`
	Addr *AAddr      `json:"addr,omitempty"`
	Cons *ECons      `json:"cons,omitempty"`
}

type ALabel struct {
	Dep  bool        `json:"dep"`
	Comp bool        `json:"comp"`
	Mods Seq[string] `json:"mods,omitempty"`
	Desc string      `json:"desc,omitempty"`
}

type ADep struct {
	LK   Seq[[]interface{}] `json:"lk"` // [index, value]
	AK   Seq[[]interface{}] `json:"ak"` // [name, AVal]
	Body *ABody             `json:"body"`
}

type ABlock struct {
	Labels Seq[ALabel] `json:"labels"`
	Body   *ABody      `json:"body"`
	Deps   Seq[ADep]   `json:"deps"`
	Min    int         `json:"min"`
	Max    int         `json:"max"`
	Depr   bool        `json:"depr"`
	Mods   Seq[string] `json:"mods,omitempty"`
	Desc   string      `json:"desc,omitempty"`
	Addr   *AAddr      `json:"addr,omitempty"`
}

type ABody struct {
	K       string       `json:"k,omitempty"` // "nil" marks an absent body
	Attrs   Map[*AAttr]  `json:"attrs"`
	Blocks  Map[*ABlock] `json:"blocks"`
	Any     bool         `json:"any"`
	Ext     AExt         `json:"ext"`
	Link    bool         `json:"link"`
	Desc    string       `json:"desc,omitempty"`
	Tas     Seq[ATas]    `json:"tas,omitempty"`
	AnyAddr *AAddr       `json:"anyaddr,omitempty"`
}

func (b *ABody) IsNil() bool { return b == nil || b.K == "nil" }

func (b *ABody) MarshalJSON() ([]byte, error) {
	if b.IsNil() {
		return []byte(`{"k":"nil"}`), nil
	}
	type plain struct {
		Attrs   map[string]*AAttr  `json:"attrs"`
		Blocks  map[string]*ABlock `json:"blocks"`
		Any     bool               `json:"any"`
		Ext     AExt               `json:"ext"`
		Link    bool               `json:"link"`
		Desc    string             `json:"desc,omitempty"`
		Tas     Seq[ATas]          `json:"tas,omitempty"`
		AnyAddr *AAddr             `json:"anyaddr,omitempty"`
	}
	p := plain{map[string]*AAttr(b.Attrs), map[string]*ABlock(b.Blocks), b.Any, b.Ext, b.Link, b.Desc, b.Tas, b.AnyAddr}
	if p.Attrs == nil {
		p.Attrs = map[string]*AAttr{}
	}
	if p.Blocks == nil {
		p.Blocks = map[string]*ABlock{}
	}
	return json.Marshal(p)
}

func (a *AAttr) MarshalJSON() ([]byte, error) {
	type plain AAttr
	p := plain(*a)
	if p.Dflt == nil {
		p.Dflt = &AVal{K: "nil"}
	}
	return json.Marshal(p)
}

func avalCty(v *AVal) (cty.Value, lang.Address, bool) {
	switch v.K {
	case "str":
		return cty.StringVal(fmt.Sprint(v.V)), nil, true
	case "num":
		f, ok := v.V.(float64)
		if !ok {
			n, _ := strconv.Atoi(fmt.Sprint(v.V))
			f = float64(n)
		}
		return cty.NumberIntVal(int64(f)), nil, true
	case "bool":
		if b, _ := v.V.(bool); b {
			return cty.True, nil, true
		}
		return cty.False, nil, true
	case "ref":
		parts := strings.Split(fmt.Sprint(v.V), ".")
		addr := lang.Address{lang.RootStep{Name: parts[0]}}
		for _, p := range parts[1:] {
			addr = append(addr, lang.AttrStep{Name: p})
		}
		return cty.NilVal, addr, true
	}
	return cty.NilVal, nil, false
}

func avalFromRaw(x interface{}) *AVal {
	b, _ := json.Marshal(x)
	var v AVal
	json.Unmarshal(b, &v)
	return &v
}

func toMods(ms []string) lang.SemanticTokenModifiers {
	out := lang.SemanticTokenModifiers{}
	for _, m := range ms {
		out = append(out, lang.SemanticTokenModifier(m))
	}
	if len(out) == 0 {
		return nil
	}
	return out
}

// ---- abstract -> real schema ---------------------------------------------------------------

var probeDesc = func(kind, name string) lang.MarkupContent { return lang.Markdown("desc:" + kind + ":" + name) }

func buildBody(b *ABody) *schema.BodySchema {
	if b.IsNil() {
		return nil
	}
	bs := &schema.BodySchema{
		Attributes: map[string]*schema.AttributeSchema{},
		Blocks:     map[string]*schema.BlockSchema{},
	}
	if b.Ext.Count || b.Ext.ForEach || b.Ext.Dyn {
		bs.Extensions = &schema.BodyExtensions{Count: b.Ext.Count, ForEach: b.Ext.ForEach, DynamicBlocks: b.Ext.Dyn}
	}
	if b.Desc != "" {
		bs.Description = lang.Markdown(b.Desc)
	}
	if b.Link {
		bs.DocsLink = &schema.DocsLink{URL: "https://example.com/docs", Tooltip: "docs"}
	}
	if b.Any {
		bs.AnyAttribute = &schema.AttributeSchema{IsOptional: true, Constraint: schema.AnyExpression{OfType: cty.DynamicPseudoType}}
		if !b.AnyAddr.IsNil() {
			bs.AnyAttribute.Address = &schema.AttributeAddrSchema{Steps: addrSteps(b.AnyAddr.Steps), ScopeId: lang.ScopeId(b.AnyAddr.Scope), AsReference: b.AnyAddr.AsRef, AsExprType: b.AnyAddr.AsType}
		}
		bs.Attributes = nil
	}
	for _, tb := range b.Tas {
		bs.TargetableAs = append(bs.TargetableAs, buildTas(tb))
	}
	for n, a := range b.Attrs {
		if b.Any {
			break
		}
		as := &schema.AttributeSchema{IsRequired: a.Req, IsOptional: a.Opt, IsComputed: a.Comp, IsDepKey: a.Dep, IsDeprecated: a.Depr,
			Description: probeDesc("attr", n)}
		if strings.HasPrefix(n, "p_") {
			// probe attribute (C16): addressable, holds a reference
			as.Constraint = schema.Reference{OfScopeId: "sc"}
			as.Address = &schema.AttributeAddrSchema{Steps: schema.Address{schema.StaticStep{Name: "pr"}, schema.AttrNameStep{}}, ScopeId: "probe", AsReference: true}
		} else if a.Dep {
			as.Constraint = schema.OneOf{schema.LiteralType{Type: cty.String}, schema.LiteralType{Type: cty.Number}, schema.Reference{OfScopeId: "any"}}
		} else {
			as.Constraint = schema.AnyExpression{OfType: cty.DynamicPseudoType}
		}
		if a.Desc != "" {
			as.Description = lang.Markdown(a.Desc)
		}
		if a.Cons != nil && !strings.HasPrefix(n, "p_") {
			as.Constraint = buildECons(a.Cons)
		}
		if !a.Addr.IsNil() {
			as.Address = &schema.AttributeAddrSchema{Steps: addrSteps(a.Addr.Steps), ScopeId: lang.ScopeId(a.Addr.Scope), AsReference: a.Addr.AsRef, AsExprType: a.Addr.AsType}
		}
		as.SemanticTokenModifiers = toMods(a.Mods)
		if a.Dflt != nil && a.Dflt.K != "nil" && a.Dflt.K != "" {
			if v, _, ok := avalCty(a.Dflt); ok && v != cty.NilVal {
				as.DefaultValue = schema.DefaultValue{Value: v}
			}
		}
		bs.Attributes[n] = as
	}
	for t, blk := range b.Blocks {
		bs.Blocks[t] = buildBlock(t, blk)
	}
	return bs
}

func buildBlock(t string, blk *ABlock) *schema.BlockSchema {
	s := &schema.BlockSchema{MinItems: uint64(blk.Min), MaxItems: uint64(blk.Max), IsDeprecated: blk.Depr, Description: probeDesc("block", t)}
	if blk.Desc != "" {
		s.Description = lang.Markdown(blk.Desc)
	}
	s.SemanticTokenModifiers = toMods(blk.Mods)
	if !blk.Addr.IsNil() {
		a := blk.Addr
		s.Address = &schema.BlockAddrSchema{Steps: addrSteps(a.Steps), ScopeId: lang.ScopeId(a.Scope), AsReference: a.AsRef, BodyAsData: a.BodyAsData,
			DependentBodyAsData: a.DepBodyAsData, SupportUnknownNestedRefs: a.UnknownNested}
		if a.AsTypeOf != "" {
			s.Address.AsTypeOf = &schema.BlockAsTypeOf{AttributeExpr: a.AsTypeOf}
		}
	}
	for i, l := range blk.Labels {
		ls := &schema.LabelSchema{Name: fmt.Sprintf("l%d", i), IsDepKey: l.Dep, Completable: l.Comp, Description: probeDesc("label", fmt.Sprintf("%s.%d", t, i)), SemanticTokenModifiers: toMods(l.Mods)}
		if l.Desc != "" {
			ls.Description = lang.Markdown(l.Desc)
		}
		s.Labels = append(s.Labels, ls)
	}
	s.Body = buildBody(blk.Body)
	if len(blk.Deps) > 0 {
		s.DependentBody = map[schema.SchemaKey]*schema.BodySchema{}
	}
	for _, d := range blk.Deps {
		dk := schema.DependencyKeys{}
		// listed in descending order on purpose: the key must not depend on the listing order (C16)
		lks := append([][]interface{}{}, d.LK...)
		sort.Slice(lks, func(i, j int) bool { return fmt.Sprint(lks[i][0]) > fmt.Sprint(lks[j][0]) })
		for _, p := range lks {
			idx, _ := p[0].(float64)
			dk.Labels = append(dk.Labels, schema.LabelDependent{Index: int(idx), Value: fmt.Sprint(p[1])})
		}
		aks := append([][]interface{}{}, d.AK...)
		sort.Slice(aks, func(i, j int) bool { return fmt.Sprint(aks[i][0]) > fmt.Sprint(aks[j][0]) })
		for _, p := range aks {
			v := avalFromRaw(p[1])
			val, addr, _ := avalCty(v)
			ev := schema.ExpressionValue{}
			if addr != nil {
				ev.Address = addr
			} else {
				ev.Static = val
			}
			dk.Attributes = append(dk.Attributes, schema.AttributeDependent{Name: fmt.Sprint(p[0]), Expr: ev})
		}
		body := buildBody(d.Body)
		if body != nil {
			body.Detail = "dep:" + string(schema.NewSchemaKey(dk))
		}
		s.DependentBody[schema.NewSchemaKey(dk)] = body
	}
	return s
}
