package main

// Direction A for Snippet.tla (C06): constraint trees / body schemas from MC_Snippet are built as real constraints and
// schemas; the tab-stops of the real snippets (EmptyCompletionData, attribute / value / label completion) are recorded.
// Also the population sweep (limit and completeness) and hook completeness.

import (
	"bufio"
	"context"
	"encoding/json"
	"flag"
	"fmt"
	"os"
	"strings"
	"time"

	"github.com/hashicorp/hcl-lang/decoder"
	"github.com/hashicorp/hcl-lang/lang"
	"github.com/hashicorp/hcl-lang/reference"
	"github.com/hashicorp/hcl-lang/schema"
	"github.com/hashicorp/hcl/v2"
	"github.com/zclconf/go-cty/cty"
)

func init() {
	commands["snip"] = cmdSnip
	commands["pop"] = cmdPop
}

type ATy struct {
	K  string     `json:"k"`
	E  *ATy       `json:"e,omitempty"`
	Es Seq[*ATy]  `json:"es"`
	As Seq[ATyAt] `json:"as"`
}
type ATyAt struct {
	Opt bool `json:"opt"`
	T   *ATy `json:"t"`
}

type ACons struct {
	K  string       `json:"k"`
	T  *ATy         `json:"t,omitempty"`
	E  *ACons       `json:"e,omitempty"`
	Es Seq[*ACons]  `json:"es"`
	Cs Seq[*ACons]  `json:"cs"`
	As Seq[AConsAt] `json:"as"`
}
type AConsAt struct {
	Req bool   `json:"req"`
	C   *ACons `json:"c"`
}

type ASnipBody struct {
	K      string           `json:"k,omitempty"`
	Attrs  Seq[AConsAt]     `json:"attrs"`
	Blocks Seq[ASnipBlockS] `json:"blocks"`
}
type ASnipBlockS struct {
	Min    int        `json:"min"`
	Labels int        `json:"labels"`
	Body   *ASnipBody `json:"body"`
}

type SnipCase struct {
	Mode    string     `json:"mode"`
	Cons    *ACons     `json:"cons"`
	Prefill bool       `json:"prefill"`
	Labels  int        `json:"labels"`
	DK      int        `json:"dk"` // how many of the labels (the first dk) are dependency keys
	Body    *ASnipBody `json:"body"`
}

func buildTy(t *ATy) cty.Type {
	switch t.K {
	case "string":
		return cty.String
	case "number":
		return cty.Number
	case "bool":
		return cty.Bool
	case "dynamic":
		return cty.DynamicPseudoType
	case "list":
		return cty.List(buildTy(t.E))
	case "set":
		return cty.Set(buildTy(t.E))
	case "map":
		return cty.Map(buildTy(t.E))
	case "tuple":
		ts := []cty.Type{}
		for _, e := range t.Es {
			ts = append(ts, buildTy(e))
		}
		return cty.Tuple(ts)
	case "object":
		m := map[string]cty.Type{}
		opt := []string{}
		for i, a := range t.As {
			n := fmt.Sprintf("a%d", i+1)
			m[n] = buildTy(a.T)
			if a.Opt {
				opt = append(opt, n)
			}
		}
		return cty.ObjectWithOptionalAttrs(m, opt)
	}
	return cty.DynamicPseudoType
}

func buildCons(c *ACons) schema.Constraint {
	switch c.K {
	case "kw":
		return schema.Keyword{Keyword: "kw"}
	case "ref":
		return schema.Reference{OfType: cty.String}
	case "typeDecl":
		return schema.TypeDeclaration{}
	case "litval":
		return schema.LiteralValue{Value: cty.StringVal("lv")}
	case "lit":
		return schema.LiteralType{Type: buildTy(c.T)}
	case "any":
		return schema.AnyExpression{OfType: buildTy(c.T)}
	case "list":
		return schema.List{Elem: buildCons(c.E)}
	case "set":
		return schema.Set{Elem: buildCons(c.E)}
	case "map":
		return schema.Map{Elem: buildCons(c.E)}
	case "tuple":
		t := schema.Tuple{Elems: []schema.Constraint{}}
		for _, e := range c.Es {
			t.Elems = append(t.Elems, buildCons(e))
		}
		return t
	case "oneOf":
		o := schema.OneOf{}
		for _, e := range c.Cs {
			o = append(o, buildCons(e))
		}
		return o
	case "obj":
		o := schema.Object{Attributes: schema.ObjectAttributes{}}
		for i, a := range c.As {
			o.Attributes[fmt.Sprintf("a%d", i+1)] = &schema.AttributeSchema{IsRequired: a.Req, IsOptional: !a.Req, Constraint: buildCons(a.C)}
		}
		return o
	}
	return schema.LiteralType{Type: cty.String}
}

func buildSnipBody(b *ASnipBody) *schema.BodySchema {
	if b == nil || b.K == "nil" {
		return nil
	}
	bs := &schema.BodySchema{Attributes: map[string]*schema.AttributeSchema{}, Blocks: map[string]*schema.BlockSchema{}}
	for i, a := range b.Attrs {
		bs.Attributes[fmt.Sprintf("at%d", i+1)] = &schema.AttributeSchema{IsRequired: a.Req, IsOptional: !a.Req, Constraint: buildCons(a.C)}
	}
	for i, blk := range b.Blocks {
		s := &schema.BlockSchema{MinItems: uint64(blk.Min), Body: buildSnipBody(blk.Body)}
		for j := 0; j < blk.Labels; j++ {
			s.Labels = append(s.Labels, &schema.LabelSchema{Name: fmt.Sprintf("l%d", j)})
		}
		bs.Blocks[fmt.Sprintf("bk%d", i+1)] = s
	}
	return bs
}

func completionStops(wt *watch, s *schema.BodySchema, src string, cursor int, prefill bool) (out [][]int, labels []string, plainBad int, status string) {
	env := envFor(s, []byte(src))
	o := env.Run(wt, Q{Kind: "completion", Path: "p1", File: "t.tf", Pos: PosAt([]byte(src), cursor), Prefill: prefill})
	status = o.Status
	out, labels = [][]int{}, []string{}
	if c, ok := o.Value.(lang.Candidates); ok {
		for _, cand := range c.List {
			out = append(out, stopsOf(cand.TextEdit.Snippet))
			labels = append(labels, cand.Label)
			if len(stopsOf(cand.TextEdit.NewText)) > 0 {
				plainBad++
			}
		}
	}
	return
}

func cmdSnip(fs *flag.FlagSet) {
	in := fs.String("cases", "", "NDJSON cases from TLC")
	out := fs.String("out", "snip", "output prefix")
	fs.Int64("seed", 1, "seed")
	fs.Parse(os.Args[2:])
	startWatchdog(60 * time.Second)
	wt := newWatch()
	f, err := os.Open(*in)
	if err != nil {
		fatal("open: %v", err)
	}
	defer f.Close()
	tw := newTraceWriter(*out + ".000.ndjson")
	defer tw.Close()
	sc := bufio.NewScanner(f)
	sc.Buffer(make([]byte, 1<<20), 1<<24)
	n := 0
	for sc.Scan() {
		var c SnipCase
		if err := json.Unmarshal(sc.Bytes(), &c); err != nil {
			fatal("bad case: %v", err)
		}
		ev := Event{"ev": "Snip", "case": n, "mode": c.Mode}
		n++
		if c.Mode == "cons" {
			cons := buildCons(c.Cons)
			ev["cons"] = c.Cons
			ev["prefill"] = c.Prefill
			ctx := schema.WithPrefillRequiredFields(context.Background(), c.Prefill)
			o := guard(wt, "EmptyCompletionData", func() (interface{}, error) { return cons.EmptyCompletionData(ctx, 1, 0), nil })
			ev["status"] = o.Status
			obs := Event{}
			if cd, ok := o.Value.(schema.CompletionData); ok {
				obs["ecd"] = stopsOf(cd.Snippet)
				obs["plainbad"] = len(stopsOf(cd.NewText))
			} else {
				obs["ecd"] = []int{}
				obs["plainbad"] = 0
			}
			// the same constraint behind an attribute: attribute-name completion and value completion
			s := &schema.BodySchema{Attributes: map[string]*schema.AttributeSchema{"attr": {IsOptional: true, Constraint: cons}}}
			if err := s.Validate(); err == nil {
				st, _, pb, status := completionStops(wt, s, "\n", 0, c.Prefill)
				obs["attr"] = st
				obs["attrstatus"] = status
				st2, _, pb2, status2 := completionStops(wt, s, "attr = \n", 7, c.Prefill)
				obs["value"] = st2
				obs["valuestatus"] = status2
				obs["plainbad"] = obs["plainbad"].(int) + pb + pb2
			} else {
				obs["attr"], obs["value"], obs["attrstatus"], obs["valuestatus"] = [][]int{}, [][]int{}, "skipped", "skipped"
			}
			ev["obs"] = obs
		} else {
			ev["labels"] = c.Labels
			ev["dk"] = c.DK
			ev["body"] = c.Body
			blk := &schema.BlockSchema{Body: &schema.BodySchema{}, DependentBody: map[schema.SchemaKey]*schema.BodySchema{}}
			for j := 0; j < c.Labels; j++ {
				dk := c.DK
				if dk == 0 {
					dk = 1
				}
				blk.Labels = append(blk.Labels, &schema.LabelSchema{Name: fmt.Sprintf("l%d", j), IsDepKey: j < dk, Completable: j == 0})
			}
			dep := buildSnipBody(c.Body)
			if dep == nil {
				dep = &schema.BodySchema{}
			}
			blk.DependentBody[labelDep(0, "thing")] = dep
			s := &schema.BodySchema{Blocks: map[string]*schema.BlockSchema{"b": blk}}
			obs := Event{}
			if err := s.Validate(); err != nil {
				ev["status"] = "skipped"
				obs["label"] = [][]int{}
				obs["plainbad"] = 0
			} else {
				src := "b \"\" {\n}\n"
				st, _, pb, status := completionStops(wt, s, src, 3, true)
				ev["status"] = status
				obs["label"] = st
				obs["plainbad"] = pb
				// block-type completion (snippet of the block candidate)
				st2, _, pb2, _ := completionStops(wt, s, "\n", 0, true)
				obs["block"] = st2
				obs["plainbad"] = pb + pb2
			}
			ev["obs"] = obs
		}
		tw.Emit(ev)
	}
	fmt.Printf("{\"events\":%d}\n", n)
}

// ---- population sweep ------------------------------------------------------------------------------

func cmdPop(fs *flag.FlagSet) {
	out := fs.String("out", "pop", "output prefix")
	fs.Int64("seed", 1, "seed")
	fs.Parse(os.Args[2:])
	startWatchdog(60 * time.Second)
	wt := newWatch()
	tw := newTraceWriter(*out + ".000.ndjson")
	defer tw.Close()
	n := 0
	emit := func(source string, total, matching int, hooks bool, o Outcome) {
		ev := Event{"ev": "Pop", "source": source, "total": total, "matching": matching, "hooks": hooks, "status": o.Status, "returned": 0, "complete": false, "case": n, "dups": 0}
		if c, ok := o.Value.(lang.Candidates); ok {
			ev["returned"] = len(c.List)
			ev["complete"] = c.IsComplete
			seen := map[string]bool{}
			d := 0
			for _, x := range c.List {
				if seen[x.Label] {
					d++
				}
				seen[x.Label] = true
			}
			ev["dups"] = d
		}
		tw.Emit(ev)
		n++
	}
	sizes := []int{0, 1, 50, 99, 100, 101, 150, 250}
	name := func(i int) string {
		// half of the names start with "m" (the typed prefix of the matching runs)
		if i%2 == 0 {
			return fmt.Sprintf("m%03d", i)
		}
		return fmt.Sprintf("x%03d", i)
	}
	for _, total := range sizes {
		for _, pfx := range []string{"", "m"} {
			matching := total
			if pfx == "m" {
				matching = (total + 1) / 2
			}
			// attributes
			s := &schema.BodySchema{Attributes: map[string]*schema.AttributeSchema{}}
			for i := 0; i < total; i++ {
				s.Attributes[name(i)] = &schema.AttributeSchema{IsOptional: true, Constraint: schema.LiteralType{Type: cty.String}}
			}
			src := pfx + "\n"
			env := envFor(s, []byte(src))
			emit("attributes", total, matching, false, env.Run(wt, Q{Kind: "completion", Path: "p1", File: "t.tf", Pos: PosAt([]byte(src), len(pfx))}))
			// blocks
			s = &schema.BodySchema{Blocks: map[string]*schema.BlockSchema{}}
			for i := 0; i < total; i++ {
				s.Blocks[name(i)] = &schema.BlockSchema{Body: &schema.BodySchema{}}
			}
			env = envFor(s, []byte(src))
			emit("blocks", total, matching, false, env.Run(wt, Q{Kind: "completion", Path: "p1", File: "t.tf", Pos: PosAt([]byte(src), len(pfx))}))
			// attributes and blocks of one body together (the limit is on the list, not on each kind)
			s = &schema.BodySchema{Attributes: map[string]*schema.AttributeSchema{}, Blocks: map[string]*schema.BlockSchema{}}
			for i := 0; i < total; i++ {
				if i%4 < 2 {
					s.Attributes[name(i)] = &schema.AttributeSchema{IsOptional: true, Constraint: schema.LiteralType{Type: cty.String}}
				} else {
					s.Blocks[name(i)] = &schema.BlockSchema{Body: &schema.BodySchema{}}
				}
			}
			env = envFor(s, []byte(src))
			emit("mixed", total, matching, false, env.Run(wt, Q{Kind: "completion", Path: "p1", File: "t.tf", Pos: PosAt([]byte(src), len(pfx))}))
			// label values
			blk := &schema.BlockSchema{Labels: []*schema.LabelSchema{{Name: "t", IsDepKey: true, Completable: true}}, Body: &schema.BodySchema{}, DependentBody: map[schema.SchemaKey]*schema.BodySchema{}}
			for i := 0; i < total; i++ {
				blk.DependentBody[labelDep(0, name(i))] = &schema.BodySchema{}
			}
			s = &schema.BodySchema{Blocks: map[string]*schema.BlockSchema{"b": blk}}
			src = "b \"" + pfx + "\" {\n}\n"
			env = envFor(s, []byte(src))
			emit("labels", total, matching, false, env.Run(wt, Q{Kind: "completion", Path: "p1", File: "t.tf", Pos: PosAt([]byte(src), 3+len(pfx))}))
			// reference targets
			s = &schema.BodySchema{Attributes: map[string]*schema.AttributeSchema{"attr": {IsOptional: true, Constraint: schema.Reference{OfType: cty.String}}}}
			src = "attr = " + pfx + "\n"
			env = envFor(s, []byte(src))
			ts := reference.Targets{}
			for i := 0; i < total; i++ {
				ts = append(ts, reference.Target{Addr: lang.Address{lang.RootStep{Name: name(i)}, lang.AttrStep{Name: "v"}}, Type: cty.String,
					RangePtr: &hcl.Range{Filename: "other.tf", Start: hcl.InitialPos, End: hcl.InitialPos}})
			}
			env.R.Ctxs["p1"].ReferenceTargets = ts
			emit("targets", total, matching, false, env.Run(wt, Q{Kind: "completion", Path: "p1", File: "t.tf", Pos: PosAt([]byte(src), 7+len(pfx))}))
			// functions (any expression): candidates = matching functions + targets
			s = &schema.BodySchema{Attributes: map[string]*schema.AttributeSchema{"attr": {IsOptional: true, Constraint: schema.AnyExpression{OfType: cty.String}}}}
			env = envFor(s, []byte(src))
			fns := map[string]schema.FunctionSignature{}
			for i := 0; i < total; i++ {
				fns[name(i)] = schema.FunctionSignature{ReturnType: cty.String}
			}
			env.R.Ctxs["p1"].Functions = fns
			emit("functions", total, matching, false, env.Run(wt, Q{Kind: "completion", Path: "p1", File: "t.tf", Pos: PosAt([]byte(src), 7+len(pfx))}))
			// completion hooks: results of a hook; with a hook the list may always grow
			for _, hookN := range []int{0, total} {
				s = &schema.BodySchema{Attributes: map[string]*schema.AttributeSchema{"attr": {IsOptional: true, Constraint: schema.LiteralType{Type: cty.String},
					CompletionHooks: lang.CompletionHooks{{Name: "hk"}}}}}
				src2 := "attr = \"" + pfx + "\"\n"
				env = envFor(s, []byte(src2))
				dctx := newDecCtx()
				hn := hookN
				dctx.CompletionHooks["hk"] = func(ctx context.Context, value cty.Value) ([]decoder.Candidate, error) {
					cs := []decoder.Candidate{}
					for i := 0; i < hn; i++ {
						if strings.HasPrefix(name(i), pfx) {
							cs = append(cs, decoder.Candidate{Label: name(i), Kind: lang.StringCandidateKind, RawInsertText: name(i)})
						}
					}
					return cs, nil
				}
				env.Dec.SetContext(dctx)
				m := matching
				if hookN == 0 {
					m = 0
				}
				emit("hook", hookN, m, true, env.Run(wt, Q{Kind: "completion", Path: "p1", File: "t.tf", Pos: PosAt([]byte(src2), 8+len(pfx))}))
			}
		}
	}
	fmt.Printf("{\"events\":%d}\n", n)
}
