package main

// Direction A for Targets.tla (C09) and the structural predicates on nested targets for every world.

import (
	"bufio"
	"encoding/json"
	"flag"
	"fmt"
	"os"
	"strings"
	"sync"
	"time"

	"github.com/hashicorp/hcl-lang/lang"
	"github.com/hashicorp/hcl-lang/reference"
	"github.com/zclconf/go-cty/cty"
)

func init() { commands["targets"] = cmdTargets }

type TargetsCase struct {
	Schema *ABody      `json:"schema"`
	Doc    Seq[*AItem] `json:"doc"`
}

func addrNames(a lang.Address) []string {
	out := []string{}
	for _, s := range a {
		switch st := s.(type) {
		case lang.RootStep:
			out = append(out, st.Name)
		case lang.AttrStep:
			out = append(out, st.Name)
		default:
			out = append(out, s.String())
		}
	}
	return out
}

func typeName(t cty.Type) string {
	if t == cty.NilType {
		return "none"
	}
	return t.FriendlyName()
}

// flattenTargets: nodes in pre-order: [parent index (0 = top), canonical address, range [s,e] | [], definition [s,e] | [], written text of the definition range]
func flattenTargets(ts reference.Targets, parent int, src map[string][]byte, out *[][]interface{}) {
	for _, t := range ts {
		rng, def, txt := []int{}, []int{}, ""
		file := ""
		if t.RangePtr != nil {
			rng = []int{t.RangePtr.Start.Byte, t.RangePtr.End.Byte}
			file = t.RangePtr.Filename
		}
		if t.DefRangePtr != nil {
			def = []int{t.DefRangePtr.Start.Byte, t.DefRangePtr.End.Byte}
			if b, ok := src[t.DefRangePtr.Filename]; ok && def[1] <= len(b) && def[0] <= def[1] {
				txt = strings.Trim(string(b[def[0]:def[1]]), "\"")
			}
		}
		*out = append(*out, []interface{}{parent, canonAddr(t.Addr), rng, def, txt, file, typeName(t.Type)})
		idx := len(*out)
		flattenTargets(t.NestedTargets, idx, src, out)
	}
}

func runTargetsCase(wt *watch, c *TargetsCase, idx, layout int) Event {
	s := buildBody(c.Schema)
	ev := Event{"ev": "Targets", "case": idx, "layout": layout, "schema": c.Schema, "doc": c.Doc}
	if err := s.Validate(); err != nil {
		ev["status"] = "skipped"
		ev["top"] = []interface{}{}
		ev["tree"] = []interface{}{}
		ev["extn"] = Event{}
		return ev
	}
	rd := Render(c.Doc, newLayout(int64(idx), layout), nil)
	env := envFor(s, rd.Src)
	o := env.Run(wt, Q{Kind: "targets", Path: "p1"})
	ev["status"] = o.Status
	if o.Status == "panic" {
		ev["status"] = "panic " + o.Site
	}
	top := [][]interface{}{}
	tree := [][]interface{}{}
	if ts, ok := o.Value.(reference.Targets); ok {
		for _, t := range ts {
			rng, def := []int{}, []int{}
			if t.RangePtr != nil {
				rng = []int{t.RangePtr.Start.Byte, t.RangePtr.End.Byte}
			}
			if t.DefRangePtr != nil {
				def = []int{t.DefRangePtr.Start.Byte, t.DefRangePtr.End.Byte}
			}
			top = append(top, []interface{}{addrNames(t.Addr), addrNames(t.LocalAddr), string(t.ScopeId), typeName(t.Type), rng, def})
		}
		flattenTargets(ts, 0, map[string][]byte{"t.tf": rd.Src}, &tree)
	}
	ev["top"] = top
	ev["tree"] = tree
	extn := map[string]Event{}
	for k, e := range rd.Ext {
		if strings.Contains(k, "#") {
			continue
		}
		hdr := []int{e.Name[0], e.Name[1]}
		if n := len(e.Labels); n > 0 {
			hdr[1] = e.Labels[n-1][1]
		}
		extn[k] = Event{"full": []int{e.Full[0], e.Full[1]}, "name": []int{e.Name[0], e.Name[1]}, "header": hdr, "value": []int{e.Value[0], e.Value[1]}}
	}
	ev["extn"] = extn
	return ev
}

func targetsWorld(tw *traceWriter, wt *watch, w *World, idx int) int {
	env := newEnv(w, "p1")
	n := 0
	keys := append([]string{"p1"}, sortedPeerKeys(w)...)
	for _, pk := range keys {
		if env.R.Failing[pk] {
			continue
		}
		o := env.Run(wt, Q{Kind: "targets", Path: pk})
		tree := [][]interface{}{}
		src := map[string][]byte{}
		for fn, f := range env.R.Ctxs[pk].Files {
			src[fn] = f.Bytes
		}
		if ts, ok := o.Value.(reference.Targets); ok {
			flattenTargets(ts, 0, src, &tree)
		}
		tw.Emit(Event{"ev": "TargetTree", "world": w.Name, "p": pk, "status": o.Status, "tree": tree, "case": idx, "layout": 0})
		n++
	}
	return n
}

func cmdTargets(fs *flag.FlagSet) {
	in := fs.String("cases", "", "NDJSON cases from TLC")
	worlds := fs.String("worlds", "", "worlds whose target trees are logged for the structural predicates")
	out := fs.String("out", "targets", "output prefix")
	fs.Int64("seed", 1, "seed")
	layouts := fs.Int("layouts", 2, "layouts")
	shards := fs.Int("shards", 8, "shards")
	fs.Parse(os.Args[2:])
	startWatchdog(60 * time.Second)
	if *worlds != "" {
		tw := newTraceWriter(*out + ".w.ndjson")
		wt := newWatch()
		n := 0
		for i, wn := range strings.Split(*worlds, ",") {
			n += targetsWorld(tw, wt, worldByName(wn), i)
		}
		tw.Close()
		fmt.Printf("{\"events\":%d}\n", n)
		return
	}
	f, err := os.Open(*in)
	if err != nil {
		fatal("open: %v", err)
	}
	var cases []*TargetsCase
	sc := bufio.NewScanner(f)
	sc.Buffer(make([]byte, 1<<20), 1<<24)
	for sc.Scan() {
		var c TargetsCase
		if err := json.Unmarshal(sc.Bytes(), &c); err != nil {
			fatal("bad case: %v", err)
		}
		cases = append(cases, &c)
	}
	f.Close()
	var wg sync.WaitGroup
	counts := make([]int, *shards)
	for s := 0; s < *shards; s++ {
		wg.Add(1)
		go func(s int) {
			defer wg.Done()
			wt := newWatch()
			tw := newTraceWriter(fmt.Sprintf("%s.%03d.ndjson", *out, s))
			defer tw.Close()
			for i := s; i < len(cases); i += *shards {
				for l := 0; l < *layouts; l++ {
					tw.Emit(runTargetsCase(wt, cases[i], i, l))
					counts[s]++
				}
			}
		}(s)
	}
	wg.Wait()
	n := 0
	for _, c := range counts {
		n += c
	}
	fmt.Printf("{\"cases\":%d,\"events\":%d}\n", len(cases), n)
}
