package main

import (
	"flag"
	"fmt"
	"os"

	"github.com/hashicorp/hcl-lang/lang"
)

func init() { commands["probe"] = cmdProbe }

// probe: run one query of a world on an ad-hoc buffer and print the canonical result (debugging aid, replay helper)
func cmdProbe(fs *flag.FlagSet) {
	world := fs.String("world", "kinds", "world")
	file := fs.String("file", "", "file name inside the path (default: first doc)")
	srcPath := fs.String("src", "", "path of a file with the buffer content (default: the world's document)")
	kind := fs.String("kind", "tokens", "query kind")
	at := fs.Int("at", 0, "byte offset")
	scan := fs.Bool("scan", false, "scan every offset for completion snippets with repeated tab-stops")
	fs.Parse(os.Args[2:])
	w := worldByName(*world)
	if *file == "" {
		*file = sortedKeys(w.Docs)[0]
	}
	env := newEnv(w, "p1")
	src := []byte(w.Docs[*file])
	if *srcPath != "" {
		b, err := os.ReadFile(*srcPath)
		if err != nil {
			fatal("%v", err)
		}
		src = b
		env.SetFile("p1", *file, src)
	}
	env.Recollect(nil, "p1")
	if *scan {
		// every offset: completion snippets whose tab-stops are repeated or not consecutive
		seen := map[string]bool{}
		for _, pos := range Boundaries(src) {
			for _, pf := range []bool{false, true} {
				o := env.Run(nil, Q{Kind: "completion", Path: "p1", File: *file, Pos: pos, Prefill: pf})
				if cl, ok := o.Value.(lang.Candidates); ok {
					for _, c := range cl.List {
						st := stopsOf(c.TextEdit.Snippet)
						bad := false
						m := map[int]bool{}
						for _, x := range st {
							if m[x] {
								bad = true
							}
							m[x] = true
						}
						if bad && !seen[c.TextEdit.Snippet] {
							seen[c.TextEdit.Snippet] = true
							fmt.Printf("@%d prefill=%v %q -> %q %v\n", pos.Byte, pf, c.Label, c.TextEdit.Snippet, st)
						}
					}
				}
			}
		}
		return
	}
	o := env.Run(nil, Q{Kind: *kind, Path: "p1", File: *file, Pos: PosAt(src, *at)})
	s, rs := observe(o)
	fmt.Println(o.Status, o.Err, o.Site)
	fmt.Println(s)
	for _, r := range rs {
		fmt.Println("  ", r.Tag, fmtRange(r.R))
	}
}
