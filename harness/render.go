package main

// Renderer: abstract document -> bytes in native syntax under a seeded layout policy, with the
// extents table (the generator knows which declaration it wrote where).

import (
	"fmt"
	"math/rand"
	"strconv"
	"strings"
)

type Extent struct {
	Full   [2]int
	Name   [2]int   // attribute name / block type
	Labels [][2]int // incl. quotes
	Open   int      // offset of '{' (blocks)
	Close  int      // offset of '}' (blocks)
	Value  [2]int   // attribute value
}

type Layout struct {
	Indent    string
	BlankProb float64
	CommProb  float64
	Align     bool
	Compact   bool // empty blocks as {}
	FinalNL   bool
	BareLabel bool // labels that are identifiers are written without quotes
	LabelGap  string
	rng       *rand.Rand
}

func newLayout(seed int64, variant int) *Layout {
	r := rand.New(rand.NewSource(seed*131 + int64(variant)))
	l := &Layout{rng: r, Indent: "  ", FinalNL: true, LabelGap: " "}
	switch variant % 4 {
	case 0: // canonical
	case 1:
		l.Indent = "    "
		l.BlankProb = 0.4
		l.Align = true
	case 2:
		l.Indent = "\t"
		l.CommProb = 0.5
		l.Compact = true
		l.FinalNL = false
		l.BareLabel = true
	case 3:
		l.Indent = " "
		l.BlankProb = 0.3
		l.CommProb = 0.3
		l.Align = true
		l.Compact = true
		l.LabelGap = "   "
	}
	return l
}

var commentPool = []string{"# note", "// ünï ✓ комментарий", "/* c */", "#"}

type Rendered struct {
	Src     []byte
	Ext     map[string]*Extent // item path "1.2" -> extent ("" is not present: root)
	Cursor  int                // byte offset of the requested cursor (-1 none)
	CurLine string
}

func pathKey(p []int) string {
	s := make([]string, len(p))
	for i, x := range p {
		s[i] = strconv.Itoa(x)
	}
	return strings.Join(s, ".")
}

func valText(v *AVal) string {
	if v == nil {
		return "true"
	}
	switch v.K {
	case "str":
		return strconv.Quote(fmt.Sprint(v.V))
	case "ref":
		return fmt.Sprint(v.V)
	case "num":
		if f, ok := v.V.(float64); ok {
			return strconv.Itoa(int(f))
		}
		return fmt.Sprint(v.V)
	case "raw", "type", "kw", "legref":
		return fmt.Sprint(v.V)
	case "tmplref":
		return "\"p-${" + fmt.Sprint(v.V) + "}\""
	}
	return "true"
}

// CursorSpec: where to put a cursor. Kind "gap": a new line holding Prefix at the end of the body of the block
// at Path (root for empty path). Kind "label": inside label Index of the block at Path after Prefix-many bytes.
type CursorSpec struct {
	Kind   string
	Path   []int
	Prefix string
	Index  int
}

type renderer struct {
	sb  strings.Builder
	l   *Layout
	ext map[string]*Extent
	cur *CursorSpec
	at  int
}

func Render(doc []*AItem, l *Layout, cur *CursorSpec) *Rendered {
	r := &renderer{l: l, ext: map[string]*Extent{}, cur: cur, at: -1}
	r.body(doc, nil, 0)
	if cur != nil && cur.Kind == "gap" && len(cur.Path) == 0 {
		r.gapLine(0)
	}
	src := r.sb.String()
	if !l.FinalNL {
		src = strings.TrimSuffix(src, "\n")
		if r.at > len(src) {
			r.at = len(src)
		}
	}
	return &Rendered{Src: []byte(src), Ext: r.ext, Cursor: r.at}
}

func (r *renderer) gapLine(depth int) {
	r.sb.WriteString(strings.Repeat(r.l.Indent, depth))
	r.sb.WriteString(r.cur.Prefix)
	r.at = r.sb.Len()
	r.sb.WriteString("\n")
}

func (r *renderer) body(items []*AItem, path []int, depth int) {
	ind := strings.Repeat(r.l.Indent, depth)
	width := 0
	if r.l.Align {
		for _, it := range items {
			if it.K == "attr" && len(it.Name) > width {
				width = len(it.Name)
			}
		}
	}
	for i, it := range items {
		p := append(append([]int{}, path...), i+1)
		if r.l.rng.Float64() < r.l.BlankProb {
			r.sb.WriteString("\n")
		}
		if r.l.rng.Float64() < r.l.CommProb {
			r.sb.WriteString(ind + commentPool[r.l.rng.Intn(len(commentPool))] + "\n")
		}
		e := &Extent{}
		r.ext[pathKey(p)] = e
		r.sb.WriteString(ind)
		e.Full[0] = r.sb.Len()
		if it.K == "attr" {
			e.Name = [2]int{r.sb.Len(), r.sb.Len() + len(it.Name)}
			r.sb.WriteString(it.Name)
			pad := 1
			if width > len(it.Name) {
				pad = width - len(it.Name) + 1
			}
			r.sb.WriteString(strings.Repeat(" ", pad) + "= ")
			e.Value[0] = r.sb.Len()
			if ex := it.Val.AsExpr(); it.Val != nil && ex != nil {
				for ep, x := range RenderExpr(&r.sb, ex, 0) {
					r.ext[pathKey(p)+"#"+ep] = &Extent{Full: x.Full}
				}
				// object items: key start .. value end
				for ep, x := range r.ext {
					if strings.HasPrefix(ep, pathKey(p)+"#") && strings.HasSuffix(ep, ".key") {
						if v := r.ext[strings.TrimSuffix(ep, ".key")+".val"]; v != nil {
							r.ext[strings.TrimSuffix(ep, ".key")] = &Extent{Full: [2]int{x.Full[0], v.Full[1]}}
						}
					}
				}
			} else {
				r.sb.WriteString(valText(it.Val))
			}
			e.Value[1] = r.sb.Len()
			e.Full[1] = r.sb.Len()
			r.sb.WriteString("\n")
			continue
		}
		e.Name = [2]int{r.sb.Len(), r.sb.Len() + len(it.Type)}
		if r.cur != nil && r.cur.Kind == "type" && pathKey(r.cur.Path) == pathKey(p) {
			// cursor inside the type of this (complete) block, behind the typed prefix
			n := len(r.cur.Prefix)
			if n > len(it.Type) {
				n = len(it.Type)
			}
			r.at = r.sb.Len() + n
		}
		r.sb.WriteString(it.Type)
		for li, lb := range it.Labels {
			r.sb.WriteString(r.l.LabelGap)
			q := strconv.Quote(lb)
			if r.l.BareLabel && isIdent(lb) && lb[0] >= 'a' {
				q = lb
			}
			e.Labels = append(e.Labels, [2]int{r.sb.Len(), r.sb.Len() + len(q)})
			if r.cur != nil && r.cur.Kind == "label" && pathKey(r.cur.Path) == pathKey(p) && r.cur.Index == li {
				r.at = r.sb.Len() + (len(q)-len(lb))/2 + len(r.cur.Prefix)
			}
			r.sb.WriteString(q)
		}
		r.sb.WriteString(" ")
		e.Open = r.sb.Len()
		isCur := r.cur != nil && r.cur.Kind == "gap" && pathKey(r.cur.Path) == pathKey(p)
		if len(it.Body) == 0 && r.l.Compact && !isCur {
			r.sb.WriteString("{}")
			e.Close = r.sb.Len() - 1
			e.Full[1] = r.sb.Len()
			r.sb.WriteString("\n")
			continue
		}
		r.sb.WriteString("{\n")
		r.body(it.Body, p, depth+1)
		if isCur {
			r.gapLine(depth + 1)
		}
		r.sb.WriteString(ind)
		e.Close = r.sb.Len()
		r.sb.WriteString("}")
		e.Full[1] = r.sb.Len()
		r.sb.WriteString("\n")
	}
}

// ItemAt returns the path of the innermost item whose full extent contains the offset ("" = none).
func (rd *Rendered) ItemAt(off int) string {
	best, bestLen := "", -1
	for k, e := range rd.Ext {
		if e.Full[0] <= off && off <= e.Full[1] && (bestLen < 0 || e.Full[1]-e.Full[0] < bestLen) {
			best, bestLen = k, e.Full[1]-e.Full[0]
		}
	}
	return best
}

func keyPath(k string) []int {
	if k == "" {
		return []int{}
	}
	out := []int{}
	for _, s := range strings.Split(k, ".") {
		n, _ := strconv.Atoi(s)
		out = append(out, n)
	}
	return out
}
