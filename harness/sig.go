package main

// Direction A for Signature.tla (C20): (call tree, location) cases from MC_Sig are rendered in several
// layouts and SignatureAtPos is asked at the concrete offset that realises the abstract location.

import (
	"bufio"
	"encoding/json"
	"flag"
	"fmt"
	"os"
	"strings"
	"sync"
	"time"

	"github.com/hashicorp/hcl-lang/lang"
	"github.com/hashicorp/hcl-lang/schema"
	"github.com/zclconf/go-cty/cty"
	"github.com/zclconf/go-cty/cty/function"
)

func init() { commands["sig"] = cmdSig }

type SigExpr struct {
	K      string        `json:"k"`
	Fn     string        `json:"fn,omitempty"`
	Args   Seq[*SigExpr] `json:"args"`
	Closed bool          `json:"closed"`
	TC     bool          `json:"tc"`
}

type SigLoc struct {
	Path Seq[int] `json:"path"`
	Kind string   `json:"kind"`
	I    int      `json:"i"`
}

type SigCase struct {
	Tree *SigExpr `json:"tree"`
	Loc  *SigLoc  `json:"loc"`
}

// The five signatures share one parameter table (their Params are slices of it with spare capacity behind them), the
// way a schema built from a table of common parameters does; a function table lives as long as the shard that uses it,
// so whatever a request writes into the schema is seen by the later ones.
func sigFuncs() map[string]schema.FunctionSignature {
	p := func(n string) function.Parameter { return function.Parameter{Name: n, Type: cty.DynamicPseudoType} }
	v := p("v")
	tbl := []function.Parameter{p("a"), p("b"), p("c")}
	return map[string]schema.FunctionSignature{
		"f0":  {ReturnType: cty.String, Params: tbl[:0]},
		"f1":  {ReturnType: cty.String, Params: tbl[:1]},
		"f2":  {ReturnType: cty.String, Params: tbl[:2]},
		"fv":  {ReturnType: cty.String, Params: tbl[:0], VarParam: &v},
		"f1v": {ReturnType: cty.String, Params: tbl[:1], VarParam: &v},
	}
}

type callExt struct {
	Name   [2]int
	Open   int
	Args   [][2]int
	Commas []int
	Close  int
}

type sigRenderer struct {
	sb     strings.Builder
	layout int
	ext    map[string]*callExt
}

func (r *sigRenderer) sep() string {
	switch r.layout {
	case 1:
		return "\n      "
	case 2:
		return " /* c */ "
	}
	return " "
}

func (r *sigRenderer) expr(e *SigExpr, path []int) {
	if e.K == "lit" {
		r.sb.WriteString("\"s\"")
		return
	}
	// layouts 4..7: a nested call is written inside a composite argument - the call tree and the locations are the same
	pre, post := "", ""
	if len(path) > 0 && e.Closed {
		switch r.layout {
		case 4:
			pre, post = "[", "]"
		case 5:
			pre, post = "(", ")"
		case 6:
			pre, post = "\"a-${", "}\""
		case 7:
			pre, post = "true ? ", " : \"s\""
		}
	}
	r.sb.WriteString(pre)
	defer r.sb.WriteString(post)
	x := &callExt{}
	r.ext[pathKey(path)] = x
	x.Name = [2]int{r.sb.Len(), r.sb.Len() + len(e.Fn)}
	r.sb.WriteString(e.Fn)
	x.Open = r.sb.Len()
	r.sb.WriteString("(")
	for i, a := range e.Args {
		if r.layout != 3 {
			r.sb.WriteString(r.sep())
		}
		s := r.sb.Len()
		r.expr(a, append(append([]int{}, path...), i+1))
		x.Args = append(x.Args, [2]int{s, r.sb.Len()})
		if i < len(e.Args)-1 || e.TC {
			if r.layout != 3 {
				r.sb.WriteString(" ")
			}
			x.Commas = append(x.Commas, r.sb.Len())
			r.sb.WriteString(",")
		}
	}
	if r.layout != 3 {
		r.sb.WriteString(" ")
	}
	x.Close = r.sb.Len()
	if e.Closed {
		r.sb.WriteString(")")
	}
}

func runSigCase(wt *watch, funcs map[string]schema.FunctionSignature, c *SigCase, idx int) []Event {
	out := []Event{}
	schemaBody := &schema.BodySchema{Attributes: map[string]*schema.AttributeSchema{
		"attr": {IsOptional: true, Constraint: schema.AnyExpression{OfType: cty.DynamicPseudoType}},
		"next": {IsOptional: true, Constraint: schema.AnyExpression{OfType: cty.DynamicPseudoType}},
	}}
	nested := false
	for _, a := range c.Tree.Args {
		nested = nested || a.K == "call"
	}
	for layout := 0; layout < 8; layout++ {
		if layout >= 4 && (!nested || (idx+layout)%2 != 0) {
			continue // wrapped layouts only where something is nested (and for every other case: two of the four)
		}
		r := &sigRenderer{layout: layout, ext: map[string]*callExt{}}
		r.sb.WriteString("attr = ")
		r.expr(c.Tree, nil)
		r.sb.WriteString("\n")
		if c.Tree.Closed {
			r.sb.WriteString("next = 1\n")
		}
		x := r.ext[pathKey(c.Loc.Path)]
		if x == nil {
			continue
		}
		off := -1
		i := c.Loc.I
		switch c.Loc.Kind {
		case "name":
			off = x.Name[0] + 1
		case "open":
			if layout == 3 {
				continue // compact: the offset after ( is also the first byte of the first argument
			}
			off = x.Open + 1
		case "inarg":
			off = x.Args[i-1][0] + 1
		case "argend":
			off = x.Args[i-1][1]
		case "precomma":
			if layout == 3 {
				continue // no blank before the comma in the compact layout
			}
			off = x.Commas[i-1]
		case "postcomma":
			if layout == 3 {
				continue // compact: the offset after the comma is also the first byte of the next argument
			}
			off = x.Commas[i-1] + 1
		case "preclose":
			if layout == 3 {
				continue
			}
			off = x.Close
		case "after":
			off = x.Close + 1
		}
		src := []byte(r.sb.String())
		if off < 0 || off > len(src) {
			continue
		}
		env := envFor(schemaBody, src)
		env.R.Ctxs["p1"].Functions = funcs
		o := env.Run(wt, Q{Kind: "signature", Path: "p1", File: "t.tf", Pos: PosAt(src, off)})
		obs := Event{"k": "none"}
		if s, ok := o.Value.(*lang.FunctionSignature); ok && s != nil {
			fn := s.Name
			if j := strings.Index(fn, "("); j >= 0 {
				fn = fn[:j]
			}
			ps := []string{}
			for _, p := range s.Parameters {
				ps = append(ps, p.Name)
			}
			obs = Event{"k": "sig", "fn": fn, "params": ps, "active": int(s.ActiveParameter)}
		}
		out = append(out, Event{"ev": "Sig", "tree": c.Tree, "loc": c.Loc, "layout": layout, "status": o.Status, "obs": obs, "case": idx, "off": off})
	}
	return out
}

func cmdSig(fs *flag.FlagSet) {
	in := fs.String("cases", "", "NDJSON cases from TLC")
	out := fs.String("out", "sig", "output prefix")
	fs.Int64("seed", 1, "seed")
	shards := fs.Int("shards", 16, "shards")
	every := fs.Int("every", 1, "replay every n-th case")
	fs.Parse(os.Args[2:])
	startWatchdog(60 * time.Second)
	f, err := os.Open(*in)
	if err != nil {
		fatal("open: %v", err)
	}
	var cases []*SigCase
	sc := bufio.NewScanner(f)
	sc.Buffer(make([]byte, 1<<20), 1<<24)
	k := 0
	for sc.Scan() {
		k++
		if k%*every != 0 {
			continue
		}
		var c SigCase
		if err := json.Unmarshal(sc.Bytes(), &c); err != nil {
			fatal("bad case: %v", err)
		}
		cases = append(cases, &c)
	}
	f.Close()
	var wg sync.WaitGroup
	counts := make([]int, *shards)
	for s := 0; s < *shards; s++ {
		wg.Add(1)
		go func(s int) {
			defer wg.Done()
			wt := newWatch()
			tw := newTraceWriter(fmt.Sprintf("%s.%03d.ndjson", *out, s))
			funcs := sigFuncs()
			defer tw.Close()
			for i := s; i < len(cases); i += *shards {
				for _, ev := range runSigCase(wt, funcs, cases[i], i) {
					tw.Emit(ev)
					counts[s]++
				}
			}
		}(s)
	}
	wg.Wait()
	n := 0
	for _, c := range counts {
		n += c
	}
	fmt.Printf("{\"cases\":%d,\"events\":%d}\n", len(cases), n)
}
