package main

// Direction A for ExprRules.tla (C10, value parts of C13 / C12 / C08, C11): a (constraint, expression, placement)
// case from MC_Expr is built as a real schema and document; origins, tokens, hovers, completions and lookups of
// the real decoder are projected onto the node paths of the abstract expression (ground truth = renderer extents).

import (
	"bufio"
	"encoding/json"
	"flag"
	"fmt"
	"os"
	"sort"
	"strings"
	"sync"
	"time"

	"github.com/hashicorp/hcl-lang/lang"
	"github.com/hashicorp/hcl-lang/reference"
	"github.com/hashicorp/hcl-lang/schema"
	"github.com/hashicorp/hcl/v2"
	"github.com/zclconf/go-cty/cty"
)

func init() { commands["expr"] = cmdExpr }

type ECons struct {
	K  string            `json:"k"`
	T  string            `json:"t,omitempty"`
	E  *ECons            `json:"e,omitempty"`
	Es Seq[*ECons]       `json:"es"`
	Cs Seq[*ECons]       `json:"cs"`
	As map[string]*ECons `json:"as,omitempty"`
}

type ExprCase struct {
	Cons  *ECons    `json:"cons"`
	Expr  *AExpr    `json:"expr"`
	Level int       `json:"level"`
	Flags Seq[bool] `json:"flags"`
}

func anyType(t string) cty.Type {
	switch t {
	case "string":
		return cty.String
	case "number":
		return cty.Number
	case "bool":
		return cty.Bool
	case "list":
		return cty.List(cty.String)
	case "set":
		return cty.Set(cty.String)
	case "map":
		return cty.Map(cty.String)
	case "object":
		return cty.Object(map[string]cty.Type{"k": cty.String, "n": cty.Number})
	case "tuple":
		return cty.Tuple([]cty.Type{cty.String, cty.Number})
	}
	return cty.DynamicPseudoType
}

func buildECons(c *ECons) schema.Constraint {
	switch c.K {
	case "any":
		return schema.AnyExpression{OfType: anyType(c.T)}
	case "ref":
		return schema.Reference{OfType: cty.DynamicPseudoType}
	case "lit":
		return schema.LiteralType{Type: anyType(c.T)}
	case "litval":
		return schema.LiteralValue{Value: cty.StringVal("lv")}
	case "kw":
		return schema.Keyword{Keyword: "kw"}
	case "typeDecl":
		return schema.TypeDeclaration{}
	case "list":
		return schema.List{Elem: buildECons(c.E)}
	case "set":
		return schema.Set{Elem: buildECons(c.E)}
	case "map":
		return schema.Map{Elem: buildECons(c.E)}
	case "tuple":
		t := schema.Tuple{}
		for _, e := range c.Es {
			t.Elems = append(t.Elems, buildECons(e))
		}
		return t
	case "oneOf":
		o := schema.OneOf{}
		for _, e := range c.Cs {
			o = append(o, buildECons(e))
		}
		return o
	case "obj":
		o := schema.Object{Attributes: schema.ObjectAttributes{}}
		for n, a := range c.As {
			o.Attributes[n] = &schema.AttributeSchema{IsOptional: true, Constraint: buildECons(a)}
		}
		return o
	}
	return schema.AnyExpression{OfType: cty.DynamicPseudoType}
}

func exprSchema(c *ExprCase) *schema.BodySchema {
	cons := buildECons(c.Cons)
	ext := func(i int) *schema.BodyExtensions {
		if i < len(c.Flags) && c.Flags[i] {
			return &schema.BodyExtensions{SelfRefs: true}
		}
		return nil
	}
	v := func() *schema.AttributeSchema { return &schema.AttributeSchema{IsOptional: true, Constraint: cons} }
	return &schema.BodySchema{
		Extensions: ext(0),
		Attributes: map[string]*schema.AttributeSchema{
			"u": {IsOptional: true, Constraint: schema.AnyExpression{OfType: cty.Number}},
			"w": {IsOptional: true, Constraint: schema.AnyExpression{OfType: cty.String}},
			"v": v(),
		},
		Blocks: map[string]*schema.BlockSchema{
			"loc": {Body: &schema.BodySchema{AnyAttribute: &schema.AttributeSchema{IsOptional: true,
				Address:    &schema.AttributeAddrSchema{Steps: schema.Address{schema.StaticStep{Name: "loc"}, schema.AttrNameStep{}}, ScopeId: "local", AsExprType: true, AsReference: true},
				Constraint: schema.AnyExpression{OfType: cty.DynamicPseudoType}}}},
			"b": {Body: &schema.BodySchema{Extensions: ext(1), Attributes: map[string]*schema.AttributeSchema{"v": v()},
				Blocks: map[string]*schema.BlockSchema{"in": {Body: &schema.BodySchema{Extensions: ext(2), Attributes: map[string]*schema.AttributeSchema{"v": v()}}}}}},
		},
	}
}

func exprFuncs() map[string]schema.FunctionSignature {
	fs := stdFuncs()
	return fs
}

const locDecl = "loc {\n  s = \"x\"\n  n = 1\n  b = true\n  l = [\"p\", \"q\"]\n  o = { k = \"v\", n = 2 }\n  m = { a = \"1\" }\n}\n"

func canonAddr(a lang.Address) [][]interface{} {
	out := [][]interface{}{}
	for _, s := range a {
		switch st := s.(type) {
		case lang.RootStep:
			out = append(out, []interface{}{"root", st.Name})
		case lang.AttrStep:
			out = append(out, []interface{}{"attr", st.Name})
		case lang.IndexStep:
			if st.Key.Type() == cty.Number {
				f, _ := st.Key.AsBigFloat().Int64()
				out = append(out, []interface{}{"idx", f})
			} else if st.Key.Type() == cty.String {
				out = append(out, []interface{}{"key", st.Key.AsString()})
			} else {
				out = append(out, []interface{}{"idx?", st.Key.GoString()})
			}
		default:
			out = append(out, []interface{}{"?", fmt.Sprint(s)})
		}
	}
	return out
}

func runExprCase(wt *watch, c *ExprCase, idx int, style int) Event {
	s := exprSchema(c)
	var sb strings.Builder
	sb.WriteString(locDecl)
	uOff := sb.Len() + 4
	sb.WriteString("u = loc.n\n")
	ind := ""
	switch c.Level {
	case 1:
		sb.WriteString("b {\n")
		ind = "  "
	case 2:
		sb.WriteString("b {\n  in {\n")
		ind = "    "
	}
	sb.WriteString(ind + "v = ")
	ext := RenderExpr(&sb, c.Expr, style)
	sb.WriteString("\n")
	switch c.Level {
	case 1:
		sb.WriteString("}\n")
	case 2:
		sb.WriteString("  }\n}\n")
	}
	src := []byte(sb.String())
	srcB := []byte("w = loc.s\n")
	env := envFor(s, src)
	env.R.Ctxs["p1"].Files["a.tf"] = env.R.Ctxs["p1"].Files["t.tf"]
	delete(env.R.Ctxs["p1"].Files, "t.tf")
	env.R.Ctxs["p1"].Files["a.tf"] = parseFile("a.tf", src)
	env.R.Ctxs["p1"].Files["b.tf"] = parseFile("b.tf", srcB)
	env.R.Ctxs["p1"].Functions = exprFuncs()
	tOut, oOut := env.Recollect(wt, "p1")
	extJ := map[string][]int{}
	for p, x := range ext {
		extJ[p] = []int{x.Full[0], x.Full[1]}
	}
	ev := Event{"ev": "Expr", "cons": c.Cons, "expr": c.Expr, "level": c.Level, "flags": c.Flags, "case": idx, "layout": style,
		"ext": extJ, "fixed": Event{"u": []int{uOff, uOff + 5}, "w": []int{4, 9}}, "tstatus": tOut.Status, "ostatus": oOut.Status}
	// origins in result order
	origins := [][]interface{}{}
	if os, ok := oOut.Value.(reference.Origins); ok {
		for _, o := range os {
			r := o.OriginRange()
			var addr lang.Address
			kind := "?"
			switch oo := o.(type) {
			case reference.LocalOrigin:
				addr, kind = oo.Addr, "local"
			case reference.PathOrigin:
				addr, kind = oo.TargetAddr, "path"
			case reference.DirectOrigin:
				kind = "direct"
			}
			origins = append(origins, []interface{}{r.Filename, r.Start.Byte, r.End.Byte, canonAddr(addr), kind})
		}
	}
	ev["origins"] = origins
	_ = hcl.Pos{}
	_ = sort.Strings
	return ev
}

func cmdExpr(fs *flag.FlagSet) {
	in := fs.String("cases", "", "NDJSON cases from TLC")
	out := fs.String("out", "expr", "output prefix")
	fs.Int64("seed", 1, "seed")
	shards := fs.Int("shards", 8, "shards")
	styles := fs.Int("styles", 2, "rendering styles per case")
	fs.Parse(os.Args[2:])
	startWatchdog(20 * time.Second)
	f, err := os.Open(*in)
	if err != nil {
		fatal("open: %v", err)
	}
	var cases []*ExprCase
	sc := bufio.NewScanner(f)
	sc.Buffer(make([]byte, 1<<20), 1<<24)
	for sc.Scan() {
		var c ExprCase
		if err := json.Unmarshal(sc.Bytes(), &c); err != nil {
			fatal("bad case: %v: %s", err, sc.Text()[:min(200, len(sc.Text()))])
		}
		cases = append(cases, &c)
	}
	f.Close()
	var wg sync.WaitGroup
	counts := make([]int, *shards)
	for s := 0; s < *shards; s++ {
		wg.Add(1)
		go func(s int) {
			defer wg.Done()
			wt := newWatch()
			tw := newTraceWriter(fmt.Sprintf("%s.%03d.ndjson", *out, s))
			defer tw.Close()
			for i := s; i < len(cases); i += *shards {
				for st := 0; st < *styles; st++ {
					tw.Emit(runExprCase(wt, cases[i], i, st))
					counts[s]++
				}
			}
		}(s)
	}
	wg.Wait()
	n := 0
	for _, c := range counts {
		n += c
	}
	fmt.Printf("{\"cases\":%d,\"events\":%d}\n", len(cases), n)
}
