package main

// Direction A for ExprRules.tla (C10, value parts of C13 / C12 / C08, C11): a (constraint, expression, placement)
// case from MC_Expr is built as a real schema and document; origins, tokens, hovers, completions and lookups of
// the real decoder are projected onto the node paths of the abstract expression (ground truth = renderer extents).

import (
	"bufio"
	"encoding/json"
	"flag"
	"fmt"
	"os"
	"sort"
	"strings"
	"sync"
	"time"

	"github.com/hashicorp/hcl-lang/decoder"
	"github.com/hashicorp/hcl-lang/lang"
	"github.com/hashicorp/hcl-lang/reference"
	"github.com/hashicorp/hcl-lang/schema"
	"github.com/hashicorp/hcl/v2"
	"github.com/zclconf/go-cty/cty"
)

func init() { commands["expr"] = cmdExpr }

type ECons struct {
	K  string            `json:"k"`
	T  string            `json:"t,omitempty"`
	E  *ECons            `json:"e,omitempty"`
	Es Seq[*ECons]       `json:"es"`
	Cs Seq[*ECons]       `json:"cs"`
	As map[string]*ECons `json:"as,omitempty"`
}

type ExprCase struct {
	Cons  *ECons    `json:"cons"`
	Expr  *AExpr    `json:"expr"`
	Level int       `json:"level"`
	Flags Seq[bool] `json:"flags"`
}

func anyType(t string) cty.Type {
	switch t {
	case "string":
		return cty.String
	case "number":
		return cty.Number
	case "bool":
		return cty.Bool
	case "list":
		return cty.List(cty.String)
	case "set":
		return cty.Set(cty.String)
	case "map":
		return cty.Map(cty.String)
	case "maplist":
		return cty.Map(cty.List(cty.String))
	case "object":
		return cty.Object(map[string]cty.Type{"k": cty.String, "n": cty.Number})
	case "tuple":
		return cty.Tuple([]cty.Type{cty.String, cty.Number})
	}
	return cty.DynamicPseudoType
}

func buildECons(c *ECons) schema.Constraint {
	switch c.K {
	case "any":
		return schema.AnyExpression{OfType: anyType(c.T)}
	case "ref":
		return schema.Reference{OfType: cty.DynamicPseudoType}
	case "refdecl":
		return schema.Reference{Address: &schema.ReferenceAddrSchema{ScopeId: "prov"}}
	case "lit":
		return schema.LiteralType{Type: anyType(c.T)}
	case "litval":
		return schema.LiteralValue{Value: cty.StringVal("lv")}
	case "kw":
		return schema.Keyword{Keyword: "kw"}
	case "typeDecl":
		return schema.TypeDeclaration{}
	case "list":
		return schema.List{Elem: buildECons(c.E)}
	case "set":
		return schema.Set{Elem: buildECons(c.E)}
	case "map":
		return schema.Map{Elem: buildECons(c.E)}
	case "tuple":
		t := schema.Tuple{}
		for _, e := range c.Es {
			t.Elems = append(t.Elems, buildECons(e))
		}
		return t
	case "oneOf":
		o := schema.OneOf{}
		for _, e := range c.Cs {
			o = append(o, buildECons(e))
		}
		return o
	case "obj":
		o := schema.Object{Attributes: schema.ObjectAttributes{}}
		for n, a := range c.As {
			o.Attributes[n] = &schema.AttributeSchema{IsOptional: true, Constraint: buildECons(a)}
		}
		return o
	}
	return schema.AnyExpression{OfType: cty.DynamicPseudoType}
}

func exprSchema(c *ExprCase) *schema.BodySchema {
	cons := buildECons(c.Cons)
	ext := func(i int) *schema.BodyExtensions {
		if i < len(c.Flags) && c.Flags[i] {
			return &schema.BodyExtensions{SelfRefs: true}
		}
		return nil
	}
	v := func() *schema.AttributeSchema { return &schema.AttributeSchema{IsOptional: true, Constraint: cons} }
	return &schema.BodySchema{
		Extensions: ext(0),
		Attributes: map[string]*schema.AttributeSchema{
			"u": {IsOptional: true, Constraint: schema.AnyExpression{OfType: cty.Number}},
			"w": {IsOptional: true, Constraint: schema.AnyExpression{OfType: cty.String}},
			"v": v(),
		},
		Blocks: map[string]*schema.BlockSchema{
			"loc": {Body: &schema.BodySchema{AnyAttribute: &schema.AttributeSchema{IsOptional: true,
				Address:    &schema.AttributeAddrSchema{Steps: schema.Address{schema.StaticStep{Name: "loc"}, schema.AttrNameStep{}}, ScopeId: "local", AsExprType: true, AsReference: true},
				Constraint: schema.AnyExpression{OfType: cty.DynamicPseudoType}}}},
			"b": {
				Address: &schema.BlockAddrSchema{Steps: schema.Address{schema.StaticStep{Name: "b"}}, ScopeId: "blk", AsReference: true, BodyAsData: true, InferBody: true, BodySelfRef: true},
				Body: &schema.BodySchema{Extensions: ext(1), Attributes: map[string]*schema.AttributeSchema{"v": v(),
					"sa": {IsOptional: true, Constraint: schema.AnyExpression{OfType: cty.String}}},
					Blocks: map[string]*schema.BlockSchema{
						"part": {Type: schema.BlockTypeList, Body: &schema.BodySchema{Attributes: map[string]*schema.AttributeSchema{
							"pw": {IsOptional: true, Constraint: schema.AnyExpression{OfType: cty.Number}},
							"ph": {IsOptional: true, Constraint: schema.AnyExpression{OfType: cty.Number}}}}},
						"in": {Body: &schema.BodySchema{Extensions: ext(2), Attributes: map[string]*schema.AttributeSchema{"v": v()}}}}}},
		},
	}
}

func exprFuncs() map[string]schema.FunctionSignature {
	fs := stdFuncs()
	return fs
}

const bDecl = "b {\n  sa = \"x\"\n  part {\n    pw = 1\n    ph = 2\n  }\n  part {\n    pw = 3\n    ph = 4\n  }\n"

const locDecl = "loc {\n  s = \"x\"\n  n = 1\n  b = true\n  l = [\"p\", \"q\"]\n  o = { k = \"v\", n = 2 }\n  m = { a = \"1\" }\n}\n"

func canonAddr(a lang.Address) [][]interface{} {
	out := [][]interface{}{}
	for _, s := range a {
		switch st := s.(type) {
		case lang.RootStep:
			out = append(out, []interface{}{"root", st.Name})
		case lang.AttrStep:
			out = append(out, []interface{}{"attr", st.Name})
		case lang.IndexStep:
			if st.Key.Type() == cty.Number {
				f, _ := st.Key.AsBigFloat().Int64()
				out = append(out, []interface{}{"idx", f})
			} else if st.Key.Type() == cty.String {
				out = append(out, []interface{}{"key", st.Key.AsString()})
			} else {
				out = append(out, []interface{}{"idx?", st.Key.GoString()})
			}
		default:
			out = append(out, []interface{}{"?", fmt.Sprint(s)})
		}
	}
	return out
}

func runExprCase(wt *watch, c *ExprCase, idx int, style int) Event {
	s := exprSchema(c)
	var sb strings.Builder
	sb.WriteString(locDecl)
	uOff := sb.Len() + 4
	sb.WriteString("u = loc.n\n")
	ind := ""
	switch c.Level {
	case 1:
		sb.WriteString(bDecl)
		ind = "  "
	case 2:
		sb.WriteString(bDecl + "  in {\n")
		ind = "    "
	}
	sb.WriteString(ind + "v = ")
	ext := RenderExpr(&sb, c.Expr, style)
	sb.WriteString("\n")
	switch c.Level {
	case 1:
		sb.WriteString("}\n")
	case 2:
		sb.WriteString("  }\n}\n")
	}
	src := []byte(sb.String())
	srcB := []byte("w = loc.s\n")
	env := envFor(s, src)
	env.R.Ctxs["p1"].Files["a.tf"] = env.R.Ctxs["p1"].Files["t.tf"]
	delete(env.R.Ctxs["p1"].Files, "t.tf")
	env.R.Ctxs["p1"].Files["a.tf"] = parseFile("a.tf", src)
	env.R.Ctxs["p1"].Files["b.tf"] = parseFile("b.tf", srcB)
	env.R.Ctxs["p1"].Functions = exprFuncs()
	tOut, oOut := env.Recollect(wt, "p1")
	extJ := map[string][]int{}
	for p, x := range ext {
		extJ[p] = []int{x.Full[0], x.Full[1]}
	}
	ev := Event{"ev": "Expr", "cons": c.Cons, "expr": c.Expr, "level": c.Level, "flags": c.Flags, "case": idx, "layout": style,
		"ext": extJ, "fixed": Event{"u": []int{uOff, uOff + 5}, "w": []int{4, 9}}, "tstatus": tOut.Status, "ostatus": oOut.Status}
	// origins in result order
	origins := [][]interface{}{}
	if os, ok := oOut.Value.(reference.Origins); ok {
		for _, o := range os {
			r := o.OriginRange()
			var addr lang.Address
			kind := "?"
			switch oo := o.(type) {
			case reference.LocalOrigin:
				addr, kind = oo.Addr, "local"
			case reference.PathOrigin:
				addr, kind = oo.TargetAddr, "path"
			case reference.DirectOrigin:
				kind = "direct"
			}
			origins = append(origins, []interface{}{r.Filename, r.Start.Byte, r.End.Byte, canonAddr(addr), kind})
		}
	}
	ev["origins"] = origins
	// ---- tokens inside the value (C13): projected to (type, start, end)
	vFull := ext[""].Full
	toks := [][]interface{}{}
	tko := env.Run(wt, Q{Kind: "tokens", Path: "p1", File: "a.tf"})
	ev["tkstatus"] = tko.Status
	if ts, ok := tko.Value.([]lang.SemanticToken); ok {
		for _, t := range ts {
			if t.Range.Start.Byte >= vFull[0] && t.Range.End.Byte <= vFull[1] {
				toks = append(toks, []interface{}{string(t.Type), t.Range.Start.Byte, t.Range.End.Byte})
			}
		}
	}
	ev["tokens"] = toks
	// step extents of reference leaves as a token would cover them
	stepExt := map[string][][]int{}
	nameExt := map[string][]int{}
	var walk func(e *AExpr, path string)
	sub := func(path, p string) string {
		if path == "" {
			return p
		}
		return path + "." + p
	}
	leafPaths := []string{}
	namePaths := []string{} // complex type declarations: hovered on their name
	walk = func(e *AExpr, path string) {
		x := ext[path]
		switch e.K {
		case "ref":
			leafPaths = append(leafPaths, path)
			se := [][]int{}
			for i, st := range e.Steps {
				r := x.Steps[i]
				switch st.K {
				case "idx":
					se = append(se, []int{r[0] + 1, r[1] - 1})
				case "key":
					se = append(se, []int{r[0] + 1, r[1] - 1})
				case "legacy":
					se = append(se, []int{r[0] + 1, r[1]})
				case "splat":
					se = append(se, []int{r[0], r[1]})
				default:
					se = append(se, []int{r[0], r[1]})
				}
			}
			stepExt[path] = se
		case "lit", "kw", "type", "tprim", "tbad":
			leafPaths = append(leafPaths, path)
		case "call":
			nameExt[path] = []int{x.Name[0], x.Name[1]}
		case "tcoll", "tobj", "ttup", "topt":
			nameExt[path] = []int{x.Name[0], x.Name[1]}
			namePaths = append(namePaths, path)
		}
		for i, c := range e.Es {
			if c.K == "text" {
				continue
			}
			walk(c, sub(path, fmt.Sprintf("es.%d", i+1)))
		}
		for i, it := range e.Items {
			if it.Key.K != "id" && it.Key.K != "str" {
				walk(it.Key, sub(path, fmt.Sprintf("items.%d.key", i+1)))
			}
			walk(it.Val, sub(path, fmt.Sprintf("items.%d.val", i+1)))
		}
		for n, c := range map[string]*AExpr{"l": e.L, "r": e.R, "e": e.E, "c": e.C, "tt": e.Tt, "ff": e.Ff, "key": e.Key, "coll": e.Coll, "body": e.Body} {
			if c != nil {
				walk(c, sub(path, n))
			}
		}
	}
	walk(c.Expr, "")
	sort.Strings(leafPaths)
	ev["stepext"] = stepExt
	ev["nameext"] = nameExt
	// ---- hover (C12) and go-to-definition (C11) at every leaf
	hovers := [][]interface{}{}
	lookups := [][]interface{}{}
	sort.Strings(namePaths)
	for _, lp := range append(append([]string{}, leafPaths...), namePaths...) {
		x := ext[lp]
		off := (x.Full[0] + x.Full[1]) / 2
		if n, ok := nameExt[lp]; ok && x.Kind != "call" {
			off = (n[0] + n[1]) / 2
		}
		pos := PosAt(src, off)
		ho := env.Run(wt, Q{Kind: "hover", Path: "p1", File: "a.tf", Pos: pos})
		hr := []interface{}{lp, off, ho.Status, -1, -1, ""}
		if h, ok := ho.Value.(*lang.HoverData); ok && h != nil && ho.Status == "ok" {
			hr = []interface{}{lp, off, "ok", h.Range.Start.Byte, h.Range.End.Byte, h.Content.Value}
		}
		hovers = append(hovers, hr)
		if x.Kind == "ref" {
			g := env.Run(wt, Q{Kind: "gotodef", Path: "p1", File: "a.tf", Pos: pos})
			defs := []string{}
			if rts, ok := g.Value.(decoder.ReferenceTargets); ok {
				for _, t := range rts {
					txt := "?"
					if t.DefRangePtr != nil && t.DefRangePtr.Filename == "a.tf" && t.DefRangePtr.End.Byte <= len(src) {
						txt = strings.Trim(string(src[t.DefRangePtr.Start.Byte:t.DefRangePtr.End.Byte]), "\"")
					} else if t.Range.Filename == "a.tf" && t.Range.End.Byte <= len(src) {
						txt = "@" + strings.Trim(string(src[t.Range.Start.Byte:t.Range.End.Byte]), "\"")
					}
					defs = append(defs, txt)
				}
			}
			sort.Strings(defs)
			lookups = append(lookups, []interface{}{lp, g.Status, defs})
		}
	}
	ev["hovers"] = hovers
	ev["lookups"] = lookups
	_ = hcl.Pos{}
	return ev
}

func cmdExpr(fs *flag.FlagSet) {
	in := fs.String("cases", "", "NDJSON cases from TLC")
	out := fs.String("out", "expr", "output prefix")
	fs.Int64("seed", 1, "seed")
	shards := fs.Int("shards", 8, "shards")
	styles := fs.Int("styles", 2, "rendering styles per case")
	fs.Parse(os.Args[2:])
	startWatchdog(60 * time.Second)
	f, err := os.Open(*in)
	if err != nil {
		fatal("open: %v", err)
	}
	var cases []*ExprCase
	sc := bufio.NewScanner(f)
	sc.Buffer(make([]byte, 1<<20), 1<<24)
	for sc.Scan() {
		var c ExprCase
		if err := json.Unmarshal(sc.Bytes(), &c); err != nil {
			fatal("bad case: %v: %s", err, sc.Text()[:min(200, len(sc.Text()))])
		}
		cases = append(cases, &c)
	}
	f.Close()
	var wg sync.WaitGroup
	counts := make([]int, *shards)
	for s := 0; s < *shards; s++ {
		wg.Add(1)
		go func(s int) {
			defer wg.Done()
			wt := newWatch()
			tw := newTraceWriter(fmt.Sprintf("%s.%03d.ndjson", *out, s))
			defer tw.Close()
			for i := s; i < len(cases); i += *shards {
				for st := 0; st < *styles; st++ {
					tw.Emit(runExprCase(wt, cases[i], i, st))
					counts[s]++
				}
			}
		}(s)
	}
	wg.Wait()
	n := 0
	for _, c := range counts {
		n += c
	}
	fmt.Printf("{\"cases\":%d,\"events\":%d}\n", len(cases), n)
}
