package main

import (
	"flag"
	"fmt"
	"math/rand"
	"os"
	"runtime"
	"strings"
	"time"
)

func main() {
	if len(os.Args) < 2 {
		fatal("usage: hx <command> [flags]")
	}
	cmd := os.Args[1]
	fs := flag.NewFlagSet(cmd, flag.ExitOnError)
	switch cmd {
	case "session":
		cmdSession(fs)
	case "worlds":
		for _, w := range allWorlds() {
			fmt.Println(w.Name, len(w.Docs))
		}
	default:
		if f, ok := commands[cmd]; ok {
			f(fs)
			return
		}
		fatal("unknown command %q", cmd)
	}
}

var commands = map[string]func(*flag.FlagSet){}

func cmdSession(fs *flag.FlagSet) {
	worlds := fs.String("worlds", "kinds", "comma separated world names")
	mode := fs.String("mode", "prefix", "prefix | edits | both")
	out := fs.String("out", "trace", "output prefix")
	seed := fs.Int64("seed", 1, "seed")
	stride := fs.Int("stride", 1, "take every n-th token prefix")
	tail := fs.Int("tail", 0, "query only the last n bytes of each prefix (0 = every offset)")
	sample := fs.Float64("sample", 0.05, "fraction of single-token edits")
	radius := fs.Int("radius", 24, "bytes around an edit that are queried")
	shards := fs.Int("shards", runtime.NumCPU(), "number of trace shards / goroutines")
	fpEvery := fs.Int("fpevery", 0, "fingerprint the context after every query batch of every n-th state")
	prefill := fs.Bool("prefill", true, "also query completion with PrefillRequiredFields")
	tokobs := fs.Bool("tokobs", true, "log token sequences / symbol trees")
	only := fs.String("only", "", "replay: keep only the state with this note (all offsets are queried)")
	fs.Parse(os.Args[2:])
	hangFile = *out + ".hang"
	startWatchdog(5 * time.Second)
	rng := rand.New(rand.NewSource(*seed))
	var states []StateSpec
	for _, wn := range strings.Split(*worlds, ",") {
		w := worldByName(wn)
		if w == nil {
			fatal("no world %q", wn)
		}
		for _, f := range sortedKeys(w.Docs) {
			if strings.HasSuffix(f, ".json") {
				continue
			}
			if *mode == "prefix" || *mode == "both" {
				states = append(states, prefixStates(w, f, *stride, *tail)...)
			}
			if *mode == "edits" || *mode == "both" {
				states = append(states, editStates(w, f, rng, *sample, *radius)...)
			}
		}
	}
	if *only != "" {
		states = nil
		for _, wn := range strings.Split(*worlds, ",") {
			w := worldByName(wn)
			for _, f := range sortedKeys(w.Docs) {
				for _, st := range prefixStates(w, f, 1, 0) {
					if st.Note == *only {
						states = append(states, st)
					}
				}
				onlyNote = *only
				for _, st := range editStates(w, f, rng, 1.0, 0) {
					st.Offsets = nil
					states = append(states, st)
				}
				onlyNote = ""
			}
		}
	}
	files := runShards(states, *shards, *out, sessOpts{FpEvery: *fpEvery, Prefill: *prefill, TokensObs: *tokobs})
	fmt.Printf("{\"states\":%d,\"files\":%d}\n", len(states), len(files))
}
