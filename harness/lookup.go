package main

// C11: go-to-definition and find-references as inverse views. For every collected origin of every path the real
// lookups are asked and the raw answers logged; TraceSession decides the inverse relation, cross-path resolution
// and block-locality.

import (
	"bufio"
	"encoding/json"
	"flag"
	"fmt"
	"os"
	"strings"
	"time"

	"github.com/hashicorp/hcl-lang/lang"
	"github.com/hashicorp/hcl-lang/schema"
	"github.com/zclconf/go-cty/cty"

	"github.com/hashicorp/hcl-lang/decoder"
	"github.com/hashicorp/hcl-lang/reference"
	"github.com/hashicorp/hcl/v2"
	"github.com/hashicorp/hcl/v2/hclsyntax"
)

func init() { commands["lookup"] = cmdLookup }

// topBlockAt: range of the top-level block of a native-syntax file that contains the offset (ground truth from the parser)
func topBlockAt(f *hcl.File, off int) []int {
	body, ok := f.Body.(*hclsyntax.Body)
	if !ok {
		return []int{-1, -1}
	}
	for _, b := range body.Blocks {
		r := b.Range()
		if r.Start.Byte <= off && off <= r.End.Byte {
			return []int{r.Start.Byte, r.End.Byte}
		}
	}
	return []int{-1, -1}
}

func isIdent(s string) bool {
	if s == "" {
		return false
	}
	for _, r := range s {
		if !(r == '_' || r == '-' || r >= '0' && r <= '9' || r >= 'a' && r <= 'z' || r >= 'A' && r <= 'Z' || r > 127) {
			return false
		}
	}
	return true
}

func rng3(r hcl.Range) []interface{} { return []interface{}{r.Filename, r.Start.Byte, r.End.Byte} }

func lookupWorld(tw *traceWriter, wt *watch, w *World) int {
	env := newEnv(w, "p1")
	emitInit(tw, w)
	keys := append([]string{"p1"}, sortedPeerKeys(w)...)
	for _, pk := range keys {
		if !env.R.Failing[pk] {
			env.Recollect(wt, pk)
		}
	}
	return lookupEnv(tw, wt, env, keys, true)
}

func lookupEnv(tw *traceWriter, wt *watch, env *Env, keys []string, names bool) int {
	n := 0
	for _, pk := range keys {
		if env.R.Failing[pk] {
			continue
		}
		pc := env.R.Ctxs[pk]
		seenRange := map[string]bool{}
		for _, o := range pc.ReferenceOrigins {
			or := o.OriginRange()
			f := pc.Files[or.Filename]
			if f == nil || seenRange[fmtRange(or)] {
				continue
			}
			seenRange[fmtRange(or)] = true
			// all origins written at this range (an expression may be a local origin and, through the schema, an implied path origin)
			local := false
			kind := "local"
			okinds := [][]string{}
			for _, o2 := range pc.ReferenceOrigins {
				if o2.OriginRange() != or {
					continue
				}
				switch oo := o2.(type) {
				case reference.LocalOrigin:
					if len(oo.Addr) > 0 {
						root := oo.Addr[0].String()
						local = local || root == "self" || root == "count" || root == "each"
					}
					okinds = append(okinds, []string{"local", pk})
				case reference.PathOrigin:
					kind = "path"
					okinds = append(okinds, []string{"path", env.R.keyOf(oo.TargetPath)})
				case reference.DirectOrigin:
					kind = "direct"
					okinds = append(okinds, []string{"direct", env.R.keyOf(oo.TargetPath)})
				}
			}
			// the attribute name the written address ends with ("" if it ends with an index or is a bare root)
			olast := ""
			if lo, ok := o.(reference.LocalOrigin); ok && len(lo.Addr) > 1 && names {
				root := lo.Addr[0].String()
				if as, ok := lo.Addr[len(lo.Addr)-1].(lang.AttrStep); ok && root != "count" && root != "each" {
					// (count.index / each.key are declared by the count / for_each attribute)
					olast = as.Name
				}
			}
			offs := []int{or.Start.Byte, (or.Start.Byte + or.End.Byte) / 2}
			if or.End.Byte-1 > or.Start.Byte {
				offs = append(offs, or.End.Byte-1)
			}
			for _, off := range offs {
				pos := PosAt(f.Bytes, off)
				g := env.Run(wt, Q{Kind: "gotodef", Path: pk, File: or.Filename, Pos: pos})
				ev := Event{"ev": "Lookup", "p": pk, "orange": rng3(or), "at": off, "okind": kind, "local": local, "okinds": okinds, "status": g.Status,
					"oblock": topBlockAt(f, or.Start.Byte), "targets": []Event{}, "olast": olast}
				ts := []Event{}
				if rts, ok := g.Value.(decoder.ReferenceTargets); ok {
					for _, t := range rts {
						tk := env.R.keyOf(t.Path)
						te := Event{"p": tk, "rng": rng3(t.Range), "def": []interface{}{}, "refs": [][]interface{}{}, "tblock": []int{-1, -1}, "origin": rng3(t.OriginRange)}
						if tc, ok := env.R.Ctxs[tk]; ok {
							if tf := tc.Files[t.Range.Filename]; tf != nil {
								te["tblock"] = topBlockAt(tf, t.Range.Start.Byte)
							}
						}
						te["deftext"] = ""
						if t.DefRangePtr != nil {
							if tc, ok := env.R.Ctxs[tk]; ok {
								if tf := tc.Files[t.DefRangePtr.Filename]; tf != nil && t.DefRangePtr.End.Byte <= len(tf.Bytes) && t.DefRangePtr.Start.Byte <= t.DefRangePtr.End.Byte {
									txt := strings.Trim(string(tf.Bytes[t.DefRangePtr.Start.Byte:t.DefRangePtr.End.Byte]), "\"")
									if isIdent(txt) {
										te["deftext"] = txt
									}
								}
							}
							te["def"] = rng3(*t.DefRangePtr)
							fr := env.Run(wt, Q{Kind: "findrefs", Path: tk, File: t.DefRangePtr.Filename, Pos: t.DefRangePtr.Start})
							refs := [][]interface{}{}
							if ros, ok := fr.Value.(decoder.ReferenceOrigins); ok {
								for _, ro := range ros {
									refs = append(refs, []interface{}{env.R.keyOf(ro.Path), ro.Range.Filename, ro.Range.Start.Byte, ro.Range.End.Byte})
								}
							}
							te["refs"] = refs
						}
						ts = append(ts, te)
					}
				}
				ev["targets"] = ts
				tw.Emit(ev)
				n++
			}
		}
	}
	return n
}

type ARefTarget struct {
	Addr   Seq[string]      `json:"addr"`
	Typ    string           `json:"typ"`
	Rng    Seq[int]         `json:"rng"`
	Def    Seq[int]         `json:"def"`
	Nested Seq[*ARefTarget] `json:"nested"`
}
type ARefOrigin struct {
	Addr  Seq[string] `json:"addr"`
	Rng   Seq[int]    `json:"rng"`
	Cons  Seq[string] `json:"cons"`
	Scope string      `json:"scope"`
}
type ARefCase struct {
	Ts Seq[*ARefTarget] `json:"ts"`
	Os Seq[*ARefOrigin] `json:"os"`
}

func refType(t string) cty.Type {
	switch t {
	case "str":
		return cty.String
	case "num":
		return cty.Number
	case "dyn":
		return cty.DynamicPseudoType
	}
	return cty.NilType
}

func refAddr(a []string) lang.Address {
	out := lang.Address{}
	for i, s := range a {
		if i == 0 {
			out = append(out, lang.RootStep{Name: s})
		} else {
			out = append(out, lang.AttrStep{Name: s})
		}
	}
	return out
}

func refRange(src []byte, r []int) hcl.Range {
	return hcl.Range{Filename: "f.tf", Start: PosAt(src, r[0]), End: PosAt(src, r[1])}
}

func buildRefTargets(src []byte, ts []*ARefTarget) reference.Targets {
	out := reference.Targets{}
	for _, t := range ts {
		rt := reference.Target{Addr: refAddr(t.Addr), Type: refType(t.Typ), ScopeId: "s"}
		if len(t.Rng) == 2 {
			r := refRange(src, t.Rng)
			rt.RangePtr = &r
		}
		if len(t.Def) == 2 {
			r := refRange(src, t.Def)
			rt.DefRangePtr = &r
		}
		rt.NestedTargets = buildRefTargets(src, t.Nested)
		out = append(out, rt)
	}
	return out
}

// lookupCases: abstract target / origin sets from MC_Refs, stored in a path context as if they had been collected
func lookupCases(tw, tw2 *traceWriter, wt *watch, path string) int {
	f, err := os.Open(path)
	if err != nil {
		fatal("open: %v", err)
	}
	defer f.Close()
	src := []byte(strings.Repeat("x = 1\n", 60))
	sc := bufio.NewScanner(f)
	sc.Buffer(make([]byte, 1<<20), 1<<24)
	n, ci := 0, 0
	for sc.Scan() {
		var c ARefCase
		if err := json.Unmarshal(sc.Bytes(), &c); err != nil {
			fatal("bad refs case: %v", err)
		}
		w := &World{Name: fmt.Sprintf("refs-case-%d", ci), Schema: &schema.BodySchema{}, Funcs: stdFuncs(), Docs: map[string]string{"f.tf": string(src)}}
		ci++
		if ci > 1 {
			tw.Emit(Event{"ev": "Reset"})
		}
		env := newEnv(w, "p1")
		emitInit(tw, w)
		pc := env.R.Ctxs["p1"]
		pc.ReferenceTargets = buildRefTargets(src, c.Ts)
		pc.ReferenceOrigins = reference.Origins{}
		for _, o := range c.Os {
			oc := reference.OriginConstraints{}
			for _, t := range o.Cons {
				sc := o.Scope
				if sc == "" {
					sc = "s"
				}
				oc = append(oc, reference.OriginConstraint{OfScopeId: lang.ScopeId(sc), OfType: refType(t)})
			}
			pc.ReferenceOrigins = append(pc.ReferenceOrigins, reference.LocalOrigin{Addr: refAddr(o.Addr), Range: refRange(src, o.Rng), Constraints: oc})
		}
		n += lookupEnv(tw, wt, env, []string{"p1"}, false)
		// exact go-to-definition per origin (TraceRefs compares with Refs!GoToDefP)
		defs := [][][]interface{}{}
		for _, o := range c.Os {
			got := [][]interface{}{}
			g := env.Run(wt, Q{Kind: "gotodef", Path: "p1", File: "f.tf", Pos: PosAt(src, o.Rng[0])})
			if rts, ok := g.Value.(decoder.ReferenceTargets); ok {
				seen := map[string]bool{}
				for _, t := range rts {
					def := []int{}
					if t.DefRangePtr != nil {
						def = []int{t.DefRangePtr.Start.Byte, t.DefRangePtr.End.Byte}
					}
					key := fmt.Sprint(t.Range.Start.Byte, t.Range.End.Byte, def)
					if !seen[key] {
						seen[key] = true
						got = append(got, []interface{}{[]int{t.Range.Start.Byte, t.Range.End.Byte}, def})
					}
				}
			}
			defs = append(defs, got)
		}
		rawCase := map[string]interface{}{}
		json.Unmarshal(sc.Bytes(), &rawCase)
		tw2.Emit(Event{"ev": "RefCase", "case": ci, "ts": rawCase["ts"], "os": rawCase["os"], "defs": defs})
	}
	return n
}

func cmdLookup(fs *flag.FlagSet) {
	cases := fs.String("cases", "", "abstract target/origin cases from MC_Refs (instead of worlds)")
	worlds := fs.String("worlds", "kinds,tf,hostile,mods,modsbroken", "worlds")
	out := fs.String("out", "lookup", "output prefix")
	fs.Int64("seed", 1, "seed")
	fs.Parse(os.Args[2:])
	startWatchdog(60 * time.Second)
	wt := newWatch()
	n := 0
	if *cases != "" {
		tw := newTraceWriter(*out + ".000.ndjson")
		tw2 := newTraceWriter(*out + "-refs.000.ndjson") // RefCase events: validated by TraceRefs
		n = lookupCases(tw, tw2, wt, *cases)
		tw.Close()
		tw2.Close()
		fmt.Printf("{\"events\":%d}\n", n)
		return
	}
	for i, wn := range strings.Split(*worlds, ",") {
		tw := newTraceWriter(fmt.Sprintf("%s.%03d.ndjson", *out, i))
		n += lookupWorld(tw, wt, worldByName(wn))
		tw.Close()
	}
	fmt.Printf("{\"events\":%d}\n", n)
}
