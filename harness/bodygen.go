package main

// Random abstract (schema, document, cursor) cases well beyond TLC's exhaustive bounds: more attributes
// and block types, deeper nesting, more items, name clashes.

import (
	"math/rand"
	"sort"
)

func sortStrings(s []string) { sort.Strings(s) }

func genBodyCasesImpl(n int, seed int64) []*BodyCase {
	rng := rand.New(rand.NewSource(seed))
	out := make([]*BodyCase, 0, n)
	for i := 0; i < n; i++ {
		out = append(out, genBodyCase(rng))
	}
	return out
}

var attrNames = []string{"a", "ab", "abc", "b", "count", "d", "da", "e", "for_each", "id", "name", "zz"}
var blockNames = []string{"ab", "k", "kk", "dk", "lifecycle", "b", "dyn", "content"}
var labelVals = []string{"x", "xx", "y", "aws_thing", "z"}

func genAttrS(rng *rand.Rand) *AAttr {
	switch rng.Intn(6) {
	case 0:
		return &AAttr{Req: true}
	case 1:
		return &AAttr{Comp: true}
	case 2:
		return &AAttr{Opt: true, Comp: true}
	case 3:
		return &AAttr{Opt: true, Depr: true}
	}
	return &AAttr{Opt: true}
}

func genBodyS(rng *rand.Rand, depth int, allowExt bool) *ABody {
	b := &ABody{Attrs: Map[*AAttr]{}, Blocks: Map[*ABlock]{}}
	for i, na := 0, rng.Intn(6); i < na; i++ {
		n := attrNames[rng.Intn(len(attrNames))]
		if n == "count" || n == "for_each" {
			continue
		}
		b.Attrs[n] = genAttrS(rng)
	}
	if depth > 0 {
		for i, nb := 0, rng.Intn(4); i < nb; i++ {
			t := blockNames[rng.Intn(len(blockNames))]
			b.Blocks[t] = genBlockS(rng, depth-1, false)
		}
	}
	if allowExt {
		b.Ext = AExt{Count: rng.Intn(2) == 0, ForEach: rng.Intn(3) == 0, Dyn: rng.Intn(2) == 0}
	}
	if rng.Intn(12) == 0 {
		b.Any = true
		b.Attrs = Map[*AAttr]{}
	}
	return b
}

func genBlockS(rng *rand.Rand, depth int, withDeps bool) *ABlock {
	blk := &ABlock{}
	nl := rng.Intn(3)
	if !withDeps {
		nl = rng.Intn(2)
	}
	for i := 0; i < nl; i++ {
		blk.Labels = append(blk.Labels, ALabel{Dep: withDeps && rng.Intn(3) > 0, Comp: rng.Intn(2) == 0})
	}
	switch rng.Intn(10) {
	case 0:
		blk.Body = &ABody{K: "nil"}
	default:
		blk.Body = genBodyS(rng, depth, withDeps)
	}
	switch rng.Intn(4) {
	case 0:
		blk.Max = 1
	case 1:
		blk.Min = 1
	case 2:
		blk.Min, blk.Max = 1, 2
	}
	blk.Depr = rng.Intn(8) == 0
	if withDeps && !blk.Body.IsNil() {
		// dependent bodies keyed by the dep labels (all of them) and possibly by a dep attribute
		var depIdx []int
		for i, l := range blk.Labels {
			if l.Dep {
				depIdx = append(depIdx, i)
			}
		}
		selName := ""
		if rng.Intn(2) == 0 && !blk.Body.Any {
			selName = "sel"
			a := &AAttr{Opt: true, Dep: true}
			if rng.Intn(2) == 0 {
				a.Dflt = &AVal{K: "str", V: "v"}
			}
			blk.Body.Attrs[selName] = a
		}
		if len(depIdx) > 0 || selName != "" {
			seen := map[string]bool{}
			for i, nd := 0, 1+rng.Intn(3); i < nd; i++ {
				d := ADep{Body: genBodyS(rng, depth, false)}
				key := ""
				for _, li := range depIdx {
					v := labelVals[rng.Intn(3)]
					d.LK = append(d.LK, []interface{}{float64(li), v})
					key += v + "|"
				}
				if selName != "" && rng.Intn(2) == 0 {
					v := []string{"v", "w"}[rng.Intn(2)]
					d.AK = append(d.AK, []interface{}{selName, map[string]interface{}{"k": "str", "v": v}})
					key += "sel=" + v
				}
				if len(d.LK) == 0 && len(d.AK) == 0 || seen[key] {
					continue
				}
				seen[key] = true
				blk.Deps = append(blk.Deps, d)
			}
		}
	}
	return blk
}

func genItems(rng *rand.Rand, s *ABody, depth int, maxItems int) Seq[*AItem] {
	items := Seq[*AItem]{}
	n := rng.Intn(maxItems + 1)
	for i := 0; i < n; i++ {
		if rng.Intn(2) == 0 {
			// attribute: mostly known names
			name := attrNames[rng.Intn(len(attrNames))]
			if s != nil && !s.IsNil() && len(s.Attrs) > 0 && rng.Intn(3) > 0 {
				ks := sortedMapKeys(s.Attrs)
				name = ks[rng.Intn(len(ks))]
			}
			dup := false
			for _, it := range items {
				if it.K == "attr" && it.Name == name {
					dup = true
				}
			}
			if dup {
				continue
			}
			v := &AVal{K: "other"}
			if name == "sel" {
				v = &AVal{K: "str", V: []string{"v", "w", "u"}[rng.Intn(3)]}
			}
			items = append(items, &AItem{K: "attr", Name: name, Val: v})
			continue
		}
		t := blockNames[rng.Intn(len(blockNames))]
		var bs *ABlock
		if s != nil && !s.IsNil() && len(s.Blocks) > 0 && rng.Intn(4) > 0 {
			ks := sortedMapKeys(s.Blocks)
			t = ks[rng.Intn(len(ks))]
			bs = s.Blocks[t]
		}
		if rng.Intn(9) == 0 {
			t = "dynamic"
		}
		it := &AItem{K: "block", Type: t}
		nl := rng.Intn(2)
		if bs != nil {
			nl = len(bs.Labels)
			if rng.Intn(6) == 0 {
				nl += rng.Intn(3) - 1
			}
		}
		if t == "dynamic" {
			nl = 1
		}
		for j := 0; j < nl && nl > 0; j++ {
			it.Labels = append(it.Labels, labelVals[rng.Intn(len(labelVals))])
		}
		if t == "dynamic" && s != nil && !s.IsNil() && len(s.Blocks) > 0 {
			ks := sortedMapKeys(s.Blocks)
			it.Labels = Seq[string]{ks[rng.Intn(len(ks))]}
		}
		if depth > 0 {
			var inner *ABody
			if bs != nil {
				inner = bs.Body
				// prefer the dependent body the labels select, if any
				for _, d := range bs.Deps {
					if len(d.LK) > 0 && len(it.Labels) > 0 && d.LK[0][1] == it.Labels[0] && rng.Intn(2) == 0 {
						inner = d.Body
					}
				}
			}
			it.Body = genItems(rng, inner, depth-1, maxItems)
		}
		items = append(items, it)
	}
	return items
}

func sortedMapKeys[T any](m map[string]T) []string {
	ks := make([]string, 0, len(m))
	for k := range m {
		ks = append(ks, k)
	}
	sortStrings(ks)
	return ks
}

func genBodyCase(rng *rand.Rand) *BodyCase {
	root := &ABody{Attrs: Map[*AAttr]{"top": {Opt: true}}, Blocks: Map[*ABlock]{}}
	for i, n := 0, 1+rng.Intn(3); i < n; i++ {
		t := []string{"r", "res", "data", "mod"}[rng.Intn(4)]
		root.Blocks[t] = genBlockS(rng, 2, true)
	}
	doc := genItems(rng, root, 3, 5)
	c := &BodyCase{Cfg: "random", Schema: root, Doc: doc}
	// cursor: a gap in some block (or the root), or none
	var blocks [][]int
	var walk func(items Seq[*AItem], p []int)
	walk = func(items Seq[*AItem], p []int) {
		for i, it := range items {
			if it.K == "block" {
				q := append(append([]int{}, p...), i+1)
				blocks = append(blocks, q)
				walk(it.Body, q)
			}
		}
	}
	walk(doc, nil)
	pfx := []string{"", "", "a", "d", "c", "k", "dy", "f"}[rng.Intn(8)]
	switch {
	case len(blocks) > 0 && rng.Intn(5) > 0:
		c.Cur = &ACursor{Kind: "gap", Path: blocks[rng.Intn(len(blocks))], Prefix: pfx}
	case rng.Intn(2) == 0:
		c.Cur = &ACursor{Kind: "gap", Path: Seq[int]{}, Prefix: pfx}
	default:
		c.Cur = &ACursor{Kind: "none"}
	}
	return c
}
